//! C20 leg `order` (E-MOCK with gates, vcore::dfs over server-side event orders).
//!
//! One execution = a real Session against a 2-node mock cluster; the explorer chooses the order of the
//! server-side events around one or two sequential `Session::use_keyspace` calls:
//!   call   start the next use_keyspace call (spawned; its completion is awaited as soon as it is inevitable)
//!   hs:X   release the parked STARTUP answer of a new connection X (completes its handshake)
//!   ack:X  release the parked answer to `USE ..` on connection X
//!   kill:X RST an established pool connection (the pool refills with a new connection)
//!   nak:X  answer the parked `USE ..` of pool connection X with an Invalid error instead (the call must not return Ok)
//!   add    a third node joins: NEW_NODE on the control connection, the driver opens a pool to it
//! After EVERY step the harness issues user requests (uniquely numbered statements) and records, at the moment of
//! issuing, which use_keyspace calls had already returned Ok (read from flags set by the calling tasks, i.e. from the
//! client side, never from the model). Oracle: every frame of a request issued after call k returned Ok (and no
//! later call was started) arrived on a connection whose ACKNOWLEDGED keyspace was k's; with a later call in flight
//! either of the two names.
//!
//! The enabled set after each step is computed from a small causal model of what the server can see (which
//! connection has a parked handshake / parked USE answer / is in the pool); every modelled consequence is awaited
//! as a condition on the mock's log or gate list, so a recorded choice sequence replays exactly. Client-internal
//! scheduling is not controlled (engine limit); the oracle holds under every client schedule.
use mockcluster::wire::Event;
use mockcluster::{CloseKind, KeyspaceSpec, MockCluster, NodeSpec, Reply, Script};
use scylla::client::PoolSize;
use scylla::client::session::Session;
use scylla::client::session_builder::SessionBuilder;
use serde_json::{Value, json};
use std::collections::{BTreeMap, BTreeSet, HashSet};
use std::num::NonZeroUsize;
use std::sync::atomic::{AtomicU8, AtomicU64, Ordering};
use std::sync::{Arc, Mutex};
use std::time::Duration;
use vcore::Report;
use vcore::dfs::{Chooser, DfsOpts};

const STMT_PREFIX: &str = "INSERT INTO t (id) VALUES (";

#[derive(Clone, Copy, Debug)]
struct CallSpec {
    raw: Option<&'static str>,
    name: &'static str,
    cs: bool,
}

#[derive(Clone, Copy, Debug)]
struct Cfg {
    pool: usize,
    calls: usize,
    /// node 1 is a 2-shard Scylla node (pool = `pool` per shard)
    sharded: bool,
    /// what the two calls are, see `spec`
    variant: u8,
    /// the topology event of the run: 0 = a third node joins (`add`), 1 = node 1 is down from the start and comes back
    /// (`up`), 2 = node 1 is rejected by the host filter at first and accepted later (`enable`), 3 = node 1 changes its
    /// rack, so the driver re-creates it (`rerack`). 1..3 happen in every run (default step before `end`).
    topo: u8,
    kills: u32,
    adds: u32,
    naks: u32,
    /// budget of `drop:X` steps: the USE on pool connection X is never answered (short connection timeout configured)
    drops: u32,
    /// node 1 owns no tokens (coordinator-only); requests are spread over ALL known nodes by a custom policy
    zero_token: bool,
    /// node 1 is a 2-shard node WITHOUT shard-aware port whose plain port hands out shard 0 only: the per-shard pool never
    /// fills, the second connection becomes an EXCESS connection (open, handshaken, outside the pool)
    excess: bool,
    max_steps: usize,
}
impl Cfg {
    /// What call k is. `raw`: the keyspace is set with a plain statement (`session.query_unpaged("USE ..")`); the
    /// driver then re-propagates the name the server acknowledged, case-sensitively, through the use_keyspace machinery.
    fn spec(&self, k: usize) -> CallSpec {
        let api = |name, cs| CallSpec { raw: None, name, cs };
        let raw = |text, name| CallSpec { raw: Some(text), name, cs: true };
        match (self.variant, k) {
            (0, 0) => api("ks_one", false),
            (0, _) => api("ks_two", false),
            (1, _) => api("ks_one", false),
            (2, 0) => api("ks_one", false),
            (2, _) => api("ks_one", true),
            // mixed-case / lower-case twins, raw statements
            (3, 0) => raw("USE \"MyKs\"", "MyKs"),
            (3, _) => api("myks", false),
            (4, 0) => api("MyKs", false),
            (4, _) => raw("USE \"MyKs\"", "MyKs"),
            (5, 0) => raw("USE myks", "myks"),
            (5, _) => api("MyKs", true),
            (6, 0) => api("MyKs", true),
            (_, _) => api("MyKs", false),
        }
    }
    /// identity of the keyspace the pools are asked for by call k: (name as the driver holds it, case-sensitive flag)
    fn ident(&self, k: usize) -> (&'static str, bool) {
        let s = self.spec(k);
        (s.name, s.cs)
    }
    /// the keyspace a server resolves call k to (unquoted identifiers fold to lower case)
    fn ks_name(&self, k: usize) -> String {
        cqlref::ksname::server_resolves_to(self.spec(k).name, self.spec(k).cs)
    }
    /// statement the pools must send for call k
    fn use_text(&self, k: usize) -> String {
        cqlref::ksname::use_statement(self.spec(k).name, self.spec(k).cs)
    }
    /// call k asks for exactly what call k-1 asked for: a driver may legitimately treat it as a no-op
    fn repeat(&self, k: usize) -> bool {
        k > 0 && self.ident(k) == self.ident(k - 1)
    }
    fn topo_name(&self) -> &'static str {
        ["add", "up", "enable", "rerack"][self.topo as usize]
    }
    fn json(&self) -> Value {
        json!({"pool": self.pool, "calls": self.calls, "sharded": self.sharded, "variant": self.variant, "topo": self.topo, "kills": self.kills, "adds": self.adds, "naks": self.naks, "drops": self.drops, "zero_token": self.zero_token, "excess": self.excess, "max_steps": self.max_steps})
    }
    fn from_json(v: &Value) -> Cfg {
        Cfg {
            pool: v["pool"].as_u64().unwrap_or(1) as usize,
            calls: v["calls"].as_u64().unwrap_or(1) as usize,
            sharded: v["sharded"].as_bool().unwrap_or(false),
            variant: v["variant"].as_u64().unwrap_or(0) as u8,
            topo: v["topo"].as_u64().unwrap_or(0) as u8,
            kills: v["kills"].as_u64().unwrap_or(1) as u32,
            adds: v["adds"].as_u64().unwrap_or(1) as u32,
            naks: v["naks"].as_u64().unwrap_or(0) as u32,
            drops: v["drops"].as_u64().unwrap_or(0) as u32,
            zero_token: v["zero_token"].as_bool().unwrap_or(false),
            excess: v["excess"].as_bool().unwrap_or(false),
            max_steps: v["max_steps"].as_u64().unwrap_or(14) as usize,
        }
    }
}

#[derive(Clone, Debug)]
struct MConn {
    id: u64,
    node: usize,
    ord: usize,
    alive: bool,
    hs_parked: Option<u64>,
    use_parked: Option<(u64, usize)>,
    pooled: bool,
    needs_sync: bool,
    last_use_seen: Option<usize>,
    acked: Option<usize>,
    /// the USE of call k was answered with an error on this connection
    nak: Option<usize>,
    /// belongs to a pool the driver is about to drop (node re-created); closed by the client once the new state is published
    retiring: bool,
    /// node is 'down': the TCP connection was accepted but nothing has been read; `refuse` resets it, `up` lets it proceed
    accept_parked: Option<u64>,
    /// accepted connection let through: its STARTUP has yet to arrive
    hs_expected: bool,
    /// the USE of call k on this connection will never be answered
    dropped: Option<usize>,
    /// set up completely but kept outside the pool by the driver (its shard is already covered)
    excess: bool,
}
impl MConn {
    fn name(&self) -> String {
        format!("n{}.{}", self.node, self.ord)
    }
}

struct ReqRec {
    text: String,
    /// None = unconstrained (no call has returned Ok yet)
    allowed: Option<Vec<usize>>,
    at_step: usize,
}

#[derive(Default)]
struct RunStats {
    steps: usize,
    requests: usize,
    strict_frames: u64,
    lenient_frames: u64,
    free_frames: u64,
    calls_ok: u64,
    calls_err: u64,
    window_requests: u64,
    use_rounds_skipped: u64,
    trace: Vec<String>,
    states: Vec<u64>,
    state_strs: Vec<String>,
}

enum Fail {
    Violation(String, String),
    Stuck(String),
}

struct World {
    cfg: Cfg,
    cluster: MockCluster,
    session: Arc<Session>,
    conns: Vec<MConn>,
    known: Vec<bool>,
    targets: Vec<usize>,
    current: Option<usize>,
    inflight: Option<(usize, tokio::task::JoinHandle<bool>)>,
    /// call issued by the caller but not yet picked up by the cluster worker (which is busy bringing up a new node's pool)
    pending: Option<(usize, tokio::task::JoinHandle<bool>)>,
    /// raw statement issued, its USE frame not yet seen / parked on some pool connection (which one is the client's
    /// choice, so it is not part of the replayed state)
    raw_wait: Option<(usize, tokio::task::JoinHandle<bool>)>,
    raw_parked: Option<u64>,
    /// per node: some connection has been published by its pool at least once
    first_pooled: [bool; 3],
    listening: [bool; 3],
    /// node 1 refuses connections (every attempt of the driver is parked at accept and reset by a `refuse` step)
    down: Arc<std::sync::atomic::AtomicBool>,
    refusals_left: u32,
    filter_open: Arc<std::sync::atomic::AtomicBool>,
    refreshes: Vec<tokio::task::JoinHandle<()>>,
    snapshot: Vec<usize>,
    started: usize,
    /// per call: 0 = not returned, 1 = returned Ok, 2 = returned Err (written by the calling task)
    flags: Arc<[AtomicU8; 2]>,
    started_flags: [bool; 2],
    kills_left: u32,
    adds_left: u32,
    naks_left: u32,
    drops_left: u32,
    reqs: Vec<ReqRec>,
    next_req: u64,
    stats: RunStats,
}

fn stuck(e: String) -> Fail {
    Fail::Stuck(e)
}

impl World {
    async fn setup(cfg: Cfg) -> Result<World, Fail> {
        let mut b = MockCluster::builder().node(NodeSpec::new("dc1", "r1", vec![-4_000_000_000_000_000_000, 2_000_000_000_000_000_000]));
        let n1 = NodeSpec::new("dc1", "r2", if cfg.zero_token { vec![] } else { vec![-1_000_000_000_000_000_000, 5_000_000_000_000_000_000] });
        b = b.node(if cfg.excess {
            let mut n = n1.scylla(2, 12);
            n.shard_aware_port = false;
            n.plain_port_shard = mockcluster::PlainPortShard::Fixed(0);
            n
        } else if cfg.sharded {
            n1.scylla(2, 12)
        } else {
            n1
        });
        for k in ["ks_one", "ks_two", "MyKs", "myks"] {
            b = b.keyspace(KeyspaceSpec::simple(k, 1));
        }
        let cluster = b.build().await.map_err(stuck)?;
        cluster.script(Script::new(STMT_PREFIX).prefix().reply(|ctx| {
            if ctx.keyspace.is_none() { Reply::error(mockcluster::wire::ErrorBody::invalid("No keyspace has been specified. USE a keyspace, or explicitly specify keyspace.tablename")) } else { Reply::void() }
        }));
        if cfg.excess {
            // the pool of node 1 never fills, so it keeps opening connections: every one after the first is parked at STARTUP
            // from the very beginning
            let first: Mutex<Option<u64>> = Mutex::new(None);
            cluster.hold(move |a| {
                if a.node != 1 || !a.is_startup_response() {
                    return false;
                }
                let mut g = first.lock().unwrap();
                if g.is_none() {
                    *g = Some(a.conn);
                }
                *g != Some(a.conn)
            });
        }
        let filter_open = Arc::new(std::sync::atomic::AtomicBool::new(cfg.topo != 2));
        let sb = SessionBuilder::new()
            .known_node(cluster.contact_point(0))
            .host_filter(Arc::new(FlipFilter { host: cluster.host_id(1), open: filter_open.clone() })).pool_size(PoolSize::PerShard(NonZeroUsize::new(cfg.pool).unwrap()))
            // the pool bounds the USE fan-out by the connection timeout (default 5 s): parked answers must not trip it
            // (the `drop` configurations want exactly that to happen, soon)
            .connection_timeout(if cfg.drops > 0 { Duration::from_millis(700) } else { Duration::from_secs(300) });
        let sb = if cfg.zero_token {
            let profile = scylla::client::execution_profile::ExecutionProfile::builder().load_balancing_policy(Arc::new(AllNodes::default())).build();
            sb.default_execution_profile_handle(profile.into_handle())
        } else {
            sb
        };
        let session = Arc::new(sb.build().await.map_err(|e| stuck(format!("session did not come up: {e}")))?);
        let targets = vec![cfg.pool, if cfg.sharded && !cfg.excess { 2 * cfg.pool } else { cfg.pool }, cfg.pool];
        let known = vec![true, cfg.topo != 2, false];
        for (n, want) in targets.iter().enumerate().take(2) {
            if !known[n] {
                continue;
            }
            cluster
                .wait_conns(&format!("node {n}: {want} ready pool connections"), mockcluster::DEADLINE, |cs| {
                    (cs.iter().filter(|c| c.node == n && c.open && c.ready && c.registered.is_empty()).count() >= *want).then_some(())
                })
                .await
                .map_err(stuck)?;
        }
        let down = Arc::new(std::sync::atomic::AtomicBool::new(cfg.topo == 1));
        if cfg.topo == 1 {
            // node 1 goes down before anything else happens: its connections are reset and every further attempt of the
            // pool is parked at accept (visible to the explorer) until it is refused (reset) or the node comes back
            let d = down.clone();
            cluster.hold(move |a| a.is_accept() && a.node == 1 && d.load(Ordering::SeqCst));
            for c in cluster.open_conns(Some(1)) {
                cluster.close_conn(c.id, CloseKind::Rst).await;
            }
        }
        let mut conns = Vec::new();
        let mut ords: BTreeMap<usize, usize> = BTreeMap::new();
        let mut infos = cluster.open_conns(None);
        infos.sort_by_key(|c| (c.node, c.id));
        for c in infos.iter().filter(|c| c.ready && c.registered.is_empty()) {
            let o = ords.entry(c.node).or_insert(0);
            conns.push(MConn { id: c.id, node: c.node, ord: *o, alive: true, hs_parked: None, use_parked: None, pooled: true, needs_sync: true, last_use_seen: None, acked: None, nak: None, retiring: false, accept_parked: None, hs_expected: false, dropped: None, excess: false });
            *o += 1;
        }
        let mut w = World {
            cfg,
            cluster,
            session,
            conns,
            known,
            targets,
            current: None,
            inflight: None,
            pending: None,
            raw_wait: None,
            raw_parked: None,
            first_pooled: [true, cfg.topo != 2, false],
            listening: [true, true, true],
            down: down.clone(),
            refusals_left: 2,
            filter_open,
            refreshes: Vec::new(),
            snapshot: Vec::new(),
            started: 0,
            flags: Arc::new([AtomicU8::new(0), AtomicU8::new(0)]),
            started_flags: [false, false],
            kills_left: cfg.kills,
            adds_left: cfg.adds,
            naks_left: cfg.naks,
            drops_left: cfg.drops,
            reqs: Vec::new(),
            next_req: 0,
            stats: RunStats::default(),
        };
        // gates: from now on every new connection's handshake completion and every USE answer is parked
        w.cluster.hold(|a| a.is_startup_response() || a.is_use_response());
        w.settle().await?;
        Ok(w)
    }

    /// Keyspaces a request issued NOW may run in (client-side knowledge only).
    fn allowed_now(&self) -> Option<Vec<usize>> {
        let mut last_ok = None;
        for k in 0..2 {
            if self.flags[k].load(Ordering::SeqCst) == 1 {
                last_ok = Some(k);
            }
        }
        let k = last_ok?;
        let mut v = vec![k];
        for later in k + 1..2 {
            if self.started_flags[later] {
                v.push(later);
            }
        }
        Some(v)
    }

    async fn request(&mut self) {
        let text = format!("{STMT_PREFIX}{})", self.next_req);
        self.next_req += 1;
        let allowed = self.allowed_now();
        self.reqs.push(ReqRec { text: text.clone(), allowed, at_step: self.stats.steps });
        self.stats.requests += 1;
        let _ = tokio::time::timeout(mockcluster::DEADLINE, self.session.query_unpaged(text, ())).await;
    }

    /// Issue requests until connection `i` has served one: proves (from outside) that the pool has published it.
    async fn sync(&mut self, i: usize) -> Result<(), Fail> {
        let id = self.conns[i].id;
        let mark = self.cluster.log_len();
        let deadline = std::time::Instant::now() + mockcluster::DEADLINE;
        loop {
            self.request().await;
            if self.cluster.log_since(mark).iter().any(|e| e.conn == id && e.is_stmt(STMT_PREFIX)) {
                return Ok(());
            }
            if std::time::Instant::now() > deadline {
                return Err(stuck(format!("connection {} never served a request although it should be in the pool", self.conns[i].name())));
            }
        }
    }

    async fn expect_use(&mut self, i: usize, k: usize) -> Result<(), Fail> {
        let id = self.conns[i].id;
        let want = self.cfg.use_text(k);
        let what = format!("{want:?} on connection {}", self.conns[i].name());
        let t0 = std::time::Instant::now();
        let a = loop {
            match self.cluster.wait_held_for(&what, Duration::from_millis(100), |a| a.conn == id && a.is_use_response() && a.statement() == Some(want.as_str())).await {
                Ok(a) => break a,
                Err(e) => {
                    if t0.elapsed() > mockcluster::DEADLINE {
                        return Err(stuck(e));
                    }
                    if let Some(other) = self.cluster.held().iter().find(|a| a.conn == id && a.is_use_response() && a.statement() != Some(want.as_str())) {
                        return Err(stuck(format!("connection {} was sent {:?} where the model expects {want:?}", self.conns[i].name(), other.statement().unwrap_or(""))));
                    }
                    if self.conns[i].pooled && !self.cfg.repeat(k) && self.flags[k].load(Ordering::SeqCst) != 0 {
                        return Err(stuck(format!("the call returned although {want:?} was never sent on pool connection {}", self.conns[i].name())));
                    }
                    if self.conns[i].pooled && self.cfg.repeat(k) && self.flags[k].load(Ordering::SeqCst) != 0 {
                        // a repeated request for the same keyspace returned without a new USE round on this
                        // connection: allowed by the property (the oracle decides whether it was right to)
                        self.conns[i].last_use_seen = Some(k);
                        self.stats.use_rounds_skipped += 1;
                        return Ok(());
                    }
                    if !self.conns[i].pooled {
                        // the model says this connection is not in the pool yet; if it serves requests the prediction is
                        // void and the diagnosis path takes over (the verdict still comes from the frame oracle only)
                        let mark = self.cluster.log_len();
                        self.request().await;
                        self.request().await;
                        if self.cluster.log_since(mark).iter().any(|e| e.conn == id && e.is_stmt(STMT_PREFIX)) {
                            return Err(stuck(format!("connection {} serves requests although {want:?} was never sent on it", self.conns[i].name())));
                        }
                    }
                }
            }
        };
        self.conns[i].use_parked = Some((a.id, k));
        self.conns[i].last_use_seen = Some(k);
        Ok(())
    }

    /// A new connection has passed the keyspace check: it enters the pool - or, on the node that hands out shard 0 only,
    /// becomes an excess connection when shard 0 is covered already.
    fn finish_setup(&mut self, i: usize) {
        let node = self.conns[i].node;
        if self.cfg.excess && node == 1 && self.conns.iter().any(|c| c.node == 1 && c.alive && c.pooled) {
            self.conns[i].excess = true;
        } else {
            self.conns[i].pooled = true;
            self.conns[i].needs_sync = true;
        }
    }

    async fn expect_new_conn(&mut self, node: usize) -> Result<(), Fail> {
        let known: HashSet<u64> = self.conns.iter().map(|c| c.id).collect();
        if node == 1 && self.down.load(Ordering::SeqCst) {
            let a = self
                .cluster
                .wait_held("a connection attempt to the node that is down", |a| a.node == node && a.is_accept() && !known.contains(&a.conn))
                .await
                .map_err(stuck)?;
            let ord = self.conns.iter().filter(|c| c.node == node).count();
            self.conns.push(MConn { id: a.conn, node, ord, alive: true, hs_parked: None, use_parked: None, pooled: false, needs_sync: false, last_use_seen: None, acked: None, nak: None, retiring: false, accept_parked: Some(a.id), hs_expected: false, dropped: None, excess: false });
            return Ok(());
        }
        let a = self
            .cluster
            .wait_held(&format!("a new connection to node {node} reaching STARTUP"), |a| a.node == node && a.is_startup_response() && !known.contains(&a.conn))
            .await
            .map_err(stuck)?;
        let ord = self.conns.iter().filter(|c| c.node == node).count();
        self.conns.push(MConn { id: a.conn, node, ord, alive: true, hs_parked: Some(a.id), use_parked: None, pooled: false, needs_sync: false, last_use_seen: None, acked: None, nak: None, retiring: false, accept_parked: None, hs_expected: false, dropped: None, excess: false });
        Ok(())
    }

    /// Wait until every consequence the model predicts for the steps taken so far is visible.
    async fn settle(&mut self) -> Result<(), Fail> {
        loop {
            let mut progressed = false;
            for c in &self.conns {
                if c.pooled && !c.retiring {
                    self.first_pooled[c.node] = true;
                }
            }
            if let (Some((k, _)), None) = (&self.raw_wait, self.raw_parked) {
                let text = self.cfg.spec(*k).raw.unwrap();
                let known: HashSet<u64> = self.conns.iter().filter_map(|c| c.use_parked.map(|u| u.0)).collect();
                let pooled: HashSet<u64> = self.conns.iter().filter(|c| c.alive && c.pooled).map(|c| c.id).collect();
                let a = self
                    .cluster
                    .wait_held(&format!("raw statement {text:?} on some pool connection"), |a| a.is_use_response() && a.statement() == Some(text) && !known.contains(&a.id))
                    .await
                    .map_err(stuck)?;
                if !pooled.contains(&a.conn) {
                    return Err(stuck(format!("raw statement {text:?} arrived on a connection the model holds to be outside the pools")));
                }
                self.raw_parked = Some(a.id);
                progressed = true;
            }
            // the cluster worker publishes a new node only after its pool served its first connection; until then
            // it does not pick up use_keyspace requests
            let blocked = (0..3).any(|n| self.known[n] && !self.first_pooled[n]);
            if !blocked {
                // the new cluster state is out: the pools of re-created nodes are dropped, their connections closed by the client
                for i in 0..self.conns.len() {
                    if self.conns[i].retiring && self.conns[i].alive {
                        let id = self.conns[i].id;
                        self.cluster
                            .wait_entry(&format!("client closes connection {} of the dropped pool", self.conns[i].name()), 0, |e| e.conn == id && matches!(e.kind, mockcluster::LogKind::Closed { .. }))
                            .await
                            .map_err(stuck)?;
                        self.conns[i].alive = false;
                        progressed = true;
                    }
                }
            }
            if !blocked {
                if let Some((k, h)) = self.pending.take() {
                    self.current = Some(k);
                    self.snapshot = (0..self.conns.len()).filter(|&i| self.conns[i].alive && self.conns[i].pooled && !self.conns[i].retiring).collect();
                    self.inflight = Some((k, h));
                    progressed = true;
                }
            }
            for i in 0..self.conns.len() {
                let c = self.conns[i].clone();
                if !c.alive || c.excess || c.retiring || c.hs_parked.is_some() || c.use_parked.is_some() || c.accept_parked.is_some() {
                    continue;
                }
                if c.hs_expected {
                    let id = c.id;
                    let a = self.cluster.wait_held(&format!("STARTUP on connection {}", c.name()), |a| a.conn == id && a.is_startup_response()).await.map_err(stuck)?;
                    self.conns[i].hs_parked = Some(a.id);
                    self.conns[i].hs_expected = false;
                    progressed = true;
                    continue;
                }
                if c.pooled {
                    if c.needs_sync {
                        self.sync(i).await?;
                        self.conns[i].needs_sync = false;
                        progressed = true;
                    }
                    if let Some((k, _)) = &self.inflight {
                        let k = *k;
                        if self.snapshot.contains(&i) && c.last_use_seen != Some(k) {
                            self.expect_use(i, k).await?;
                            progressed = true;
                        }
                    }
                } else {
                    match self.current {
                        Some(k) if c.last_use_seen.map(|x| self.cfg.ident(x)) != Some(self.cfg.ident(k)) => {
                            self.expect_use(i, k).await?;
                            progressed = true;
                        }
                        Some(_) => {}
                        None => {
                            self.finish_setup(i);
                            progressed = true;
                        }
                    }
                }
            }
            for n in 0..3 {
                if !self.known[n] || !self.listening[n] {
                    continue;
                }
                let opening = self.conns.iter().filter(|c| c.node == n && c.alive && !c.retiring && !c.pooled && !c.excess).count();
                let pooled = self.conns.iter().filter(|c| c.node == n && c.alive && !c.retiring && c.pooled).count();
                // (the pool that only ever gets shard 0 is never full: it keeps opening connections)
                if opening == 0 && (pooled < self.targets[n] || (self.cfg.excess && n == 1)) {
                    self.expect_new_conn(n).await?;
                    progressed = true;
                }
            }
            if let Some((k, _)) = &self.inflight {
                let k = *k;
                let returned_early = self.cfg.repeat(k) && self.flags[k].load(Ordering::SeqCst) != 0 && self.snapshot.iter().all(|&i| !self.conns[i].alive || self.conns[i].use_parked.is_none());
                if returned_early || self.snapshot.iter().all(|&i| !self.conns[i].alive || self.conns[i].acked == Some(k) || self.conns[i].nak == Some(k) || self.conns[i].dropped == Some(k)) {
                    let (_, h) = self.inflight.take().unwrap();
                    let ok = tokio::time::timeout(mockcluster::DEADLINE, h)
                        .await
                        .map_err(|_| stuck(format!("use_keyspace({}) did not return although every pool connection has answered or died", self.cfg.use_text(k))))?
                        .map_err(|e| stuck(format!("call task: {e}")))?;
                    if ok {
                        self.stats.calls_ok += 1;
                    } else {
                        self.stats.calls_err += 1;
                    }
                    progressed = true;
                }
            }
            if !progressed {
                return Ok(());
            }
        }
    }

    /// Canonical description of the MODEL state (what the server can see + the harness's own steps). The calls'
    /// return values are deliberately not part of it: an answer followed at once by an RST of the same connection may
    /// or may not reach the client (TCP discards unread data on reset), so e.g. `nak:X, kill:X` lets the call end Ok or
    /// Err; the enabled sets and the oracle do not depend on that.
    fn state_string(&self) -> String {
        let mut s = format!("raw={}{} pend={:?} cur={:?} infl={:?} started={} k={} a={} n={};", self.raw_wait.is_some() as u8, self.raw_parked.is_some() as u8, self.pending.as_ref().map(|x| x.0), self.current, self.inflight.as_ref().map(|x| x.0), self.started, self.kills_left, self.adds_left, self.naks_left);
        for c in &self.conns {
            s.push_str(&format!("{}:{}{}{}{}{}{:?}{:?}{:?}{:?}x{};", c.name(), c.accept_parked.is_some() as u8, c.retiring as u8, c.alive as u8, c.hs_parked.is_some() as u8, c.pooled as u8, c.use_parked.map(|u| u.1), c.acked, c.nak, c.dropped, c.excess as u8));
        }
        s
    }

    /// Enabled actions in canonical order; element 0 is the default.
    fn enabled(&self) -> Vec<String> {
        let mut order: Vec<usize> = (0..self.conns.len()).collect();
        order.sort_by_key(|&i| (self.conns[i].node, self.conns[i].ord));
        let mut v = Vec::new();
        if self.raw_parked.is_some() {
            // which connection carries the raw statement is the client's choice: while its answer is parked only
            // steps that do not depend on that connection's identity are offered
            v.push("ack-raw".to_string());
            if self.stats.steps < self.cfg.max_steps && self.adds_left > 0 && self.cfg.topo != 3 {
                v.push(self.cfg.topo_name().to_string());
            }
            return v;
        }
        for &i in &order {
            let c = &self.conns[i];
            // excess configuration: one excess connection is enough, and after the pooled connection of node 1 was lost no
            // further handshake is let through (whether the driver has noticed the loss yet is not observable)
            let frozen = self.cfg.excess && c.node == 1 && (self.conns.iter().any(|x| x.node == 1 && x.excess) || !self.conns.iter().any(|x| x.node == 1 && x.alive && x.pooled));
            if c.alive && c.hs_parked.is_some() && !frozen {
                v.push(format!("hs:{}", c.name()));
            }
            if c.alive && c.use_parked.is_some() {
                v.push(format!("ack:{}", c.name()));
            }
        }
        if self.inflight.is_none() && self.pending.is_none() && self.raw_wait.is_none() && self.started < self.cfg.calls {
            v.push("call".to_string());
        }
        // a re-created node: only between calls and when none of its connections is still being set up
        let topo_ok = self.adds_left > 0
            && (self.cfg.topo != 3 || (self.inflight.is_none() && self.pending.is_none() && self.raw_wait.is_none() && self.conns.iter().all(|c| c.node != 1 || !c.alive || c.pooled)));
        let mut topo_is_default = false;
        if v.is_empty() {
            if self.cfg.topo != 0 && topo_ok {
                // down/up, enable and rerack happen in every run
                v.push(self.cfg.topo_name().to_string());
                topo_is_default = true;
            } else {
                v.push("end".to_string());
            }
        }
        if self.stats.steps < self.cfg.max_steps {
            if self.kills_left > 0 {
                for &i in &order {
                    let c = &self.conns[i];
                    if c.alive && c.pooled && !c.retiring {
                        v.push(format!("kill:{}", c.name()));
                    }
                }
            }
            if topo_ok && !topo_is_default {
                v.push(self.cfg.topo_name().to_string());
            }
            if self.drops_left > 0 {
                for &i in &order {
                    let c = &self.conns[i];
                    if c.alive && c.pooled && c.use_parked.is_some() {
                        v.push(format!("drop:{}", c.name()));
                    }
                }
            }
            if self.refusals_left > 0 {
                for &i in &order {
                    let c = &self.conns[i];
                    if c.alive && c.accept_parked.is_some() {
                        v.push(format!("refuse:{}", c.name()));
                    }
                }
            }
            if self.naks_left > 0 {
                for &i in &order {
                    let c = &self.conns[i];
                    if c.alive && c.pooled && c.use_parked.is_some() {
                        v.push(format!("nak:{}", c.name()));
                    }
                    // the USE of a connection that is still outside the pool (refill after a kill): refused with
                    // Invalid (`nakinv`) or with one of the other kinds (`nak`); the driver drops the connection and
                    // refills again. Only on nodes whose pool has been up before (the worker's wait for a new pool's
                    // first connection is not modelled for a refused first connection).
                    if c.alive && !c.pooled && !c.excess && c.use_parked.is_some() && self.first_pooled[c.node] && !self.cfg.excess {
                        v.push(format!("nakinv:{}", c.name()));
                        v.push(format!("nak:{}", c.name()));
                    }
                }
            }
        }
        v
    }

    fn conn_by_name(&self, name: &str) -> usize {
        self.conns.iter().position(|c| c.name() == name).expect("action names a known connection")
    }

    async fn perform(&mut self, action: &str) -> Result<(), Fail> {
        if action == "call" {
            let k = self.started;
            self.started += 1;
            self.started_flags[k] = true;
            let s = self.session.clone();
            let flags = self.flags.clone();
            let spec = self.cfg.spec(k);
            let h = tokio::spawn(async move {
                let ok = match spec.raw {
                    Some(text) => {
                        let r = s.query_unpaged(text, ()).await;
                        if std::env::var("C20_DUMP").is_ok() {
                            eprintln!("query_unpaged({text:?}) returned {:?}", r.as_ref().map(|_| ()));
                        }
                        r.is_ok()
                    }
                    None => {
                        let r = s.use_keyspace(spec.name, spec.cs).await;
                        if std::env::var("C20_DUMP").is_ok() {
                            eprintln!("use_keyspace({:?}, {}) returned {r:?}", spec.name, spec.cs);
                        }
                        r.is_ok()
                    }
                };
                flags[k].store(if ok { 1 } else { 2 }, Ordering::SeqCst);
                ok
            });
            if spec.raw.is_some() {
                self.raw_wait = Some((k, h));
            } else {
                self.pending = Some((k, h));
            }
        } else if action == "ack-raw" {
            let id = self.raw_parked.take().unwrap();
            if !self.cluster.release(id) {
                return Err(stuck("parked answer of the raw USE statement vanished".into()));
            }
            // the driver now re-propagates the acknowledged name through the cluster worker
            self.pending = self.raw_wait.take();
        } else if action == "up" {
            self.adds_left -= 1;
            self.down.store(false, Ordering::SeqCst);
            for c in self.conns.iter_mut().filter(|c| c.alive && c.accept_parked.is_some()) {
                let id = c.accept_parked.take().unwrap();
                if !self.cluster.release(id) {
                    return Err(stuck("parked accept vanished".into()));
                }
                c.hs_expected = true;
            }
        } else if let Some(name) = action.strip_prefix("refuse:") {
            let i = self.conn_by_name(name);
            self.refusals_left -= 1;
            let id = self.conns[i].accept_parked.take().unwrap();
            self.cluster.discard(id);
            self.conns[i].alive = false;
        } else if action == "enable" || action == "rerack" {
            self.adds_left -= 1;
            if action == "enable" {
                self.filter_open.store(true, Ordering::SeqCst);
                self.known[1] = true;
            } else {
                self.cluster.set_location(1, "dc1", "r9");
                // every connection the old pool ever had (dead ones too: they must not count for the new pool)
                for c in self.conns.iter_mut().filter(|c| c.node == 1) {
                    c.retiring = true;
                }
                self.first_pooled[1] = false;
            }
            // the refresh returns only after the new node's pool has served its first connection
            let s = self.session.clone();
            self.refreshes.push(tokio::spawn(async move {
                let _ = s.refresh_metadata().await;
            }));
        } else if action == "add" {
            self.adds_left -= 1;
            let n = self.cluster.add_node(NodeSpec::new("dc1", "r3", vec![7_000_000_000_000_000_000])).await.map_err(stuck)?;
            assert_eq!(n, 2);
            self.known[2] = true;
            let pushed = self.cluster.push_event(0, Event::new_node(self.cluster.ip(2).into(), self.cluster.port()));
            if pushed != 1 {
                return Err(stuck(format!("NEW_NODE went to {pushed} control connections")));
            }
        } else if let Some(name) = action.strip_prefix("hs:") {
            let i = self.conn_by_name(name);
            let id = self.conns[i].hs_parked.take().unwrap();
            if !self.cluster.release(id) {
                return Err(stuck(format!("parked handshake of {name} vanished")));
            }
        } else if let Some(name) = action.strip_prefix("ack:") {
            let i = self.conn_by_name(name);
            let (id, k) = self.conns[i].use_parked.take().unwrap();
            if !self.cluster.release(id) {
                return Err(stuck(format!("parked USE answer of {name} vanished")));
            }
            self.conns[i].acked = Some(k);
            if !self.conns[i].pooled && self.current.map(|c| self.cfg.ident(c)) == Some(self.cfg.ident(k)) {
                self.finish_setup(i);
            }
        } else if let Some(name) = action.strip_prefix("drop:") {
            let i = self.conn_by_name(name);
            self.drops_left -= 1;
            let (id, k) = self.conns[i].use_parked.take().unwrap();
            self.cluster.discard(id);
            self.conns[i].dropped = Some(k);
        } else if let Some(name) = action.strip_prefix("nak:").or_else(|| action.strip_prefix("nakinv:")) {
            let i = self.conn_by_name(name);
            self.naks_left -= 1;
            let (id, k) = self.conns[i].use_parked.take().unwrap();
            // one refusal per family, rotating over connections and calls: three error codes and a response of the wrong
            // kind. (A SetKeyspace naming ANOTHER keyspace is covered by the names leg only: a server that answers so has
            // moved the connection, which no later request can be blamed for.)
            let kind = if action.starts_with("nakinv:") { 0 } else if self.conns[i].pooled { (k + self.conns[i].node + self.conns[i].ord + self.cfg.variant as usize) % 4 } else { 1 + (k + self.conns[i].node + self.conns[i].ord) % 3 };
            let refusal = match kind {
                0 => Reply::error(mockcluster::wire::ErrorBody::invalid("mock: this node refuses the keyspace")),
                1 => Reply::error(mockcluster::wire::ErrorBody::overloaded("mock: overloaded")),
                2 => Reply::error(mockcluster::wire::ErrorBody::server_error("mock: internal error")),
                _ => Reply::void(),
            };
            if !self.cluster.release_with(id, refusal) {
                return Err(stuck(format!("parked USE answer of {name} vanished")));
            }
            if self.conns[i].pooled {
                self.conns[i].nak = Some(k);
            } else {
                // connection setup failed: the driver drops the connection (and refills after its back-off)
                let id = self.conns[i].id;
                self.cluster
                    .wait_entry(&format!("client closes connection {name} whose USE was refused"), 0, |e| e.conn == id && matches!(e.kind, mockcluster::LogKind::Closed { .. }))
                    .await
                    .map_err(stuck)?;
                self.conns[i].alive = false;
            }
        } else if let Some(name) = action.strip_prefix("kill:") {
            let i = self.conn_by_name(name);
            self.kills_left -= 1;
            self.conns[i].alive = false;
            self.cluster.close_conn(self.conns[i].id, CloseKind::Rst).await;
            if let Some((id, _)) = self.conns[i].use_parked.take() {
                self.cluster.discard(id);
            }
        } else if action != "end" {
            unreachable!("{action}");
        }
        Ok(())
    }

    /// Requests after a step: more of them while the risky window is open (a call has returned Ok but some live
    /// connection has not acknowledged its keyspace as far as the server knows).
    async fn requests_after_step(&mut self) {
        let window = match self.allowed_now() {
            Some(a) if a.len() == 1 => self.conns.iter().any(|c| c.alive && c.acked.map(|x| self.cfg.ks_name(x)) != Some(self.cfg.ks_name(a[0]))),
            _ => false,
        };
        let n = if window { 8 } else { 2 };
        if window {
            self.stats.window_requests += n;
        }
        for _ in 0..n {
            self.request().await;
        }
    }

    /// Diagnosis path after a mispredicted consequence: let everything parked go, give the started calls a chance to
    /// return, then issue a burst of requests. Whatever the oracle then says about real frames and real return
    /// flags is sound; if it says nothing the run is reported as a stall (exit 2).
    async fn drain_and_probe(&mut self) {
        let deadline = std::time::Instant::now() + Duration::from_secs(5);
        loop {
            self.cluster.release_all();
            let all_returned = (0..2).all(|k| !self.started_flags[k] || self.flags[k].load(Ordering::SeqCst) != 0);
            if all_returned && self.cluster.held().is_empty() {
                break;
            }
            if std::time::Instant::now() > deadline {
                break;
            }
            self.cluster.quiesce(Duration::from_millis(30)).await;
        }
        for _ in 0..32 {
            self.request().await;
        }
    }

    fn check_oracle(&mut self) -> Result<(), Fail> {
        let mut by_text: BTreeMap<&str, &ReqRec> = BTreeMap::new();
        for r in &self.reqs {
            by_text.insert(r.text.as_str(), r);
        }
        for e in self.cluster.frames() {
            let Some(stmt) = e.statement() else { continue };
            let Some(rec) = by_text.get(stmt) else { continue };
            let f = e.frame().unwrap();
            match &rec.allowed {
                None => self.stats.free_frames += 1,
                Some(allowed) => {
                    if allowed.len() == 1 {
                        self.stats.strict_frames += 1;
                    } else {
                        self.stats.lenient_frames += 1;
                    }
                    let names: Vec<String> = allowed.iter().map(|k| self.cfg.ks_name(*k)).collect();
                    let ok = f.keyspace.as_deref().map(|k| names.iter().any(|n| n == k)).unwrap_or(false);
                    if !ok {
                        let conn = self.conns.iter().find(|c| c.id == e.conn).map(|c| c.name()).unwrap_or_else(|| format!("c{}", e.conn));
                        let (key, what) = match &f.keyspace {
                            None => ("order:request-on-connection-without-keyspace", "no keyspace at all".to_string()),
                            Some(k) => ("order:request-on-connection-in-other-keyspace", format!("keyspace {k:?}")),
                        };
                        return Err(Fail::Violation(
                            key.to_string(),
                            format!(
                                "request {:?} was issued (after step {}) when the call setting the keyspace had returned Ok for {:?}, but it arrived on connection {conn} (node {}) which had acknowledged {what}; steps: {:?}",
                                rec.text, rec.at_step, names, e.node, self.stats.trace
                            ),
                        ));
                    }
                }
            }
        }
        Ok(())
    }
}

async fn run(cfg: Cfg, ch: &mut Chooser) -> Result<RunStats, Fail> {
    let mut w = World::setup(cfg).await?;
    let res: Result<(), Fail> = async {
        w.requests_after_step().await;
        loop {
            let ss = w.state_string();
            w.stats.states.push(vcore::fnv64(ss.as_bytes()));
            w.stats.state_strs.push(ss);
            let en = w.enabled();
            let costs: Vec<u32> = (0..en.len()).map(|i| if i == 0 { 0 } else { 1 }).collect();
            let pick = ch.choose_costed("step", &costs);
            let action = en[pick].clone();
            if ch.diverged.is_some() {
                return Err(stuck(format!("replay divergence: {:?}", ch.diverged)));
            }
            w.stats.trace.push(action.clone());
            if action == "end" {
                break;
            }
            w.stats.steps += 1;
            w.perform(&action).await?;
            w.settle().await?;
            w.requests_after_step().await;
            if w.stats.steps > 40 {
                return Err(stuck("more than 40 steps".into()));
            }
        }
        // final: every pooled connection serves at least one request issued now
        for i in 0..w.conns.len() {
            if w.conns[i].alive && w.conns[i].pooled {
                w.sync(i).await?;
            }
        }
        w.check_oracle()
    }
    .await;
    let res = match res {
        Err(Fail::Stuck(e)) => {
            // The model's prediction did not come true. Before calling it a stall, look at what the stalled state
            // means for the property: issue a burst of requests now and evaluate the oracle - a connection that
            // entered the pool without the expected USE explains the stall and is a violation in its own right.
            w.drain_and_probe().await;
            match w.check_oracle() {
                Err(v) => Err(v),
                Ok(()) => Err(Fail::Stuck(format!("{e}; steps: {:?}; panics seen: {:?}", w.stats.trace, PANICS.lock().unwrap()))),
            }
        }
        other => other,
    };
    let unexpected = w.cluster.unexpected();
    if std::env::var("C20_DUMP").is_ok() {
        eprintln!("{}", w.cluster.dump_log());
    }
    if let Some((_, h)) = w.inflight.take() {
        h.abort();
    }
    if let Some((_, h)) = w.pending.take() {
        h.abort();
    }
    if let Some((_, h)) = w.raw_wait.take() {
        h.abort();
    }
    for h in w.refreshes.drain(..) {
        h.abort();
    }
    w.cluster.shutdown().await;
    res?;
    if !unexpected.is_empty() {
        return Err(stuck(format!("mock saw an unscripted request: {}", unexpected[0].describe())));
    }
    Ok(std::mem::take(&mut w.stats))
}

fn run_blocking(cfg: Cfg, ch: &mut Chooser) -> Result<RunStats, Fail> {
    let rt = tokio::runtime::Builder::new_multi_thread().worker_threads(2).enable_all().build().unwrap();
    let r = rt.block_on(run(cfg, ch));
    rt.shutdown_timeout(Duration::from_millis(200));
    r
}

/// Load balancing over ALL nodes the driver knows (round robin), including nodes that own no tokens: the default policy
/// only ever plans over the token ring.
#[derive(Debug, Default)]
struct AllNodes {
    next: std::sync::atomic::AtomicUsize,
}
impl scylla::policies::load_balancing::LoadBalancingPolicy for AllNodes {
    fn pick<'a>(&'a self, _r: &'a scylla::policies::load_balancing::RoutingInfo, cluster: &'a scylla::cluster::ClusterState) -> Option<(scylla::cluster::NodeRef<'a>, Option<scylla::routing::Shard>)> {
        let nodes = cluster.get_nodes_info();
        if nodes.is_empty() {
            return None;
        }
        Some((&nodes[self.next.fetch_add(1, Ordering::Relaxed) % nodes.len()], None))
    }
    fn fallback<'a>(&'a self, _r: &'a scylla::policies::load_balancing::RoutingInfo, cluster: &'a scylla::cluster::ClusterState) -> scylla::policies::load_balancing::FallbackPlan<'a> {
        Box::new(cluster.get_nodes_info().iter().map(|n| (n, None)))
    }
    fn name(&self) -> String {
        "AllNodes".into()
    }
}

/// Host filter that rejects one host until the harness opens it.
struct FlipFilter {
    host: uuid::Uuid,
    open: Arc<std::sync::atomic::AtomicBool>,
}
impl scylla::policies::host_filter::HostFilter for FlipFilter {
    fn accept(&self, peer: &scylla::cluster::metadata::Peer) -> bool {
        peer.host_id != self.host || self.open.load(Ordering::SeqCst)
    }
}

static PANICS: Mutex<Vec<String>> = Mutex::new(Vec::new());

fn main() {
    let r = Report::new("C20", "order", "model_checking", "E-MOCK");
    // panics inside driver tasks are swallowed by tokio; keep them for the stall report. A cancelled
    // spawn_blocking at runtime shutdown (ClusterState::calculate_new_locator) is an artefact of tearing the run down.
    std::panic::set_hook(Box::new(|info| {
        let s = info.to_string();
        if !s.contains("JoinError::Cancelled") {
            PANICS.lock().unwrap().push(s);
        }
    }));
    if let Some(case) = r.replay_case() {
        let cfg = Cfg::from_json(&case["cfg"]);
        let choices: Vec<usize> = case["choices"].as_array().map(|a| a.iter().map(|x| x.as_u64().unwrap_or(0) as usize).collect()).unwrap_or_default();
        let mut ch = Chooser::new(choices);
        match run_blocking(cfg, &mut ch) {
            Ok(st) => println!("trace: {:?}", st.trace),
            Err(Fail::Violation(k, w)) => r.violation(&k, &w, case.clone()),
            Err(Fail::Stuck(e)) => vcore::machinery_error(&e),
        }
        r.finish_replay();
    }
    let thorough = r.tier().is_thorough();
    let bound = r.args.extra_value("--bound").and_then(|s| s.parse().ok()).unwrap_or(if thorough { 3 } else { 2 });
    let mut cfgs = Vec::new();
    for calls in [1usize, 2] {
        for pool in [1usize, 2] {
            // error answers (nak): in the single-connection pools (and the sharded configuration of the thorough tier)
            // the largest configuration (pools of 2, two calls) goes without the joining node (covered by the other three)
            let adds = if pool == 2 && calls == 2 { 0 } else { 1 };
            cfgs.push(Cfg { pool, calls, sharded: false, variant: 0, topo: 0, kills: 1, adds, naks: if pool == 1 { 1 } else { 0 }, drops: 0, zero_token: false, excess: false, max_steps: 14 });
        }
    }
    // the same name twice (first round may fail with error answers on some or all connections), and the same name
    // with the other case-sensitivity flag
    cfgs.insert(1, Cfg { pool: 1, calls: 2, sharded: false, variant: 1, topo: 0, kills: 1, adds: 1, naks: 2, drops: 0, zero_token: false, excess: false, max_steps: 14 });
    cfgs.push(Cfg { pool: 1, calls: 2, sharded: false, variant: 2, topo: 0, kills: 1, adds: 1, naks: if thorough { 1 } else { 0 }, drops: 0, zero_token: false, excess: false, max_steps: 14 });
    // mixed-case / lower-case twin keyspaces, set through raw `USE` statements and through the API
    cfgs.insert(2, Cfg { pool: 1, calls: 2, sharded: false, variant: 3, topo: 0, kills: 1, adds: 1, naks: 0, drops: 0, zero_token: false, excess: false, max_steps: 14 });
    cfgs.push(Cfg { pool: 1, calls: 2, sharded: false, variant: 4, topo: 0, kills: 1, adds: 1, naks: 0, drops: 0, zero_token: false, excess: false, max_steps: 14 });
    // node histories: down at USE time and back later; accepted by the host filter later; re-created after a rack change
    for topo in [1u8, 2, 3] {
        cfgs.push(Cfg { pool: 1, calls: 2, sharded: false, variant: 0, topo, kills: if thorough { 1 } else { 0 }, adds: 1, naks: 0, drops: 0, zero_token: false, excess: false, max_steps: 14 });
    }
    // a coordinator-only (zero-token) node among the pools; a USE that is never answered on one of two pool connections
    cfgs.push(Cfg { pool: 1, calls: 2, sharded: false, variant: 0, topo: 0, kills: 1, adds: 0, naks: 0, drops: 0, zero_token: true, excess: false, max_steps: 14 });
    cfgs.push(Cfg { pool: 2, calls: if thorough { 2 } else { 1 }, sharded: false, variant: 0, topo: 0, kills: 0, adds: 0, naks: 0, drops: 1, zero_token: false, excess: false, max_steps: 14 });
    // an excess connection (same shard as the pooled one, no shard-aware port) next to the pool
    cfgs.push(Cfg { pool: 1, calls: 2, sharded: true, variant: 0, topo: 0, kills: 1, adds: 0, naks: 0, drops: 0, zero_token: false, excess: true, max_steps: 14 });
    // per-shard pool on a 2-shard node (shard-aware port)
    cfgs.push(Cfg { pool: 1, calls: 1, sharded: true, variant: 0, topo: 0, kills: 1, adds: 0, naks: 0, drops: 0, zero_token: false, excess: false, max_steps: 14 });
    if thorough {
        cfgs.push(Cfg { pool: 1, calls: 2, sharded: false, variant: 5, topo: 0, kills: 1, adds: 1, naks: 1, drops: 0, zero_token: false, excess: false, max_steps: 14 });
        cfgs.push(Cfg { pool: 1, calls: 2, sharded: false, variant: 6, topo: 0, kills: 1, adds: 1, naks: 1, drops: 0, zero_token: false, excess: false, max_steps: 14 });
        cfgs.push(Cfg { pool: 2, calls: 2, sharded: false, variant: 3, topo: 0, kills: 1, adds: 0, naks: 0, drops: 0, zero_token: false, excess: false, max_steps: 14 });
        cfgs.push(Cfg { pool: 2, calls: 2, sharded: false, variant: 1, topo: 0, kills: 1, adds: 0, naks: 2, drops: 0, zero_token: false, excess: false, max_steps: 14 });
        cfgs.push(Cfg { pool: 1, calls: 2, sharded: true, variant: 0, topo: 0, kills: 1, adds: 1, naks: 0, drops: 0, zero_token: false, excess: false, max_steps: 14 });
        cfgs.push(Cfg { pool: 1, calls: 2, sharded: false, variant: 0, topo: 0, kills: 2, adds: 1, naks: 0, drops: 0, zero_token: false, excess: false, max_steps: 16 });
    }
    if let Some(only) = r.args.extra_value("--only-cfg").and_then(|s| s.parse::<usize>().ok()) {
        cfgs = vec![cfgs[only]];
    }
    let states: Mutex<HashSet<u64>> = Mutex::new(HashSet::new());
    let traces: Mutex<BTreeSet<String>> = Mutex::new(BTreeSet::new());
    let audited = AtomicU64::new(0);
    // reproducible model mispredictions in states where the oracle has nothing to say (e.g. the call returned Err, so the
    // property makes no claim): they must not hide a violation found on another schedule, and they are never a verdict
    let stalls: Mutex<Vec<String>> = Mutex::new(Vec::new());
    let total_exec = AtomicU64::new(0);
    let exhaustive = std::sync::atomic::AtomicBool::new(true);
    // executions are latency-bound (refill delays, reconnect back-off), so two lanes of configurations run side by side
    let run_lane = |lane: &[Cfg], jobs: usize| {
      for cfg in lane {
        if r.violation_count() > 0 {
            break;
        }
        let opts = DfsOpts { bound, max_executions: 200_000, wall: Duration::from_secs(if thorough { 240 } else { 45 }), jobs, stop_at_first: true };
        let rr = &r;
        let res = vcore::dfs::explore(&opts, |ch| {
            let out = run_blocking(*cfg, ch);
            let out = match out {
                Err(Fail::Stuck(e)) => {
                    // Only a reproducible observation counts. Between a harness step and the next one the driver's own
                    // tasks run unsynchronised (e.g. a pool refiller may pick up the keyspace request a moment after a
                    // released handshake of a pool that has no other connection), so a misprediction is re-run: twice.
                    let mut last = Err(Fail::Stuck(e.clone()));
                    let mut msgs = vec![e];
                    for _ in 0..2 {
                        let mut ch2 = Chooser::new(ch.choices());
                        match run_blocking(*cfg, &mut ch2) {
                            Err(Fail::Stuck(e2)) => msgs.push(e2),
                            other => {
                                rr.counters.add("stalls_not_reproduced", 1);
                                last = other;
                                break;
                            }
                        }
                    }
                    if msgs.len() == 3 { Err(Fail::Stuck(msgs.join(" | again: "))) } else { last }
                }
                other => other,
            };
            match out {
                Ok(st) => {
                    rr.eval(1);
                    rr.transitions.fetch_add(st.steps as u64, Ordering::Relaxed);
                    rr.counters.add("requests_issued", st.requests as u64);
                    rr.counters.add("frames_checked_strict", st.strict_frames);
                    rr.counters.add("frames_checked_two_names", st.lenient_frames);
                    rr.counters.add("frames_unconstrained", st.free_frames);
                    rr.counters.add("calls_returned_ok", st.calls_ok);
                    rr.counters.add("calls_returned_err", st.calls_err);
                    rr.counters.add("requests_in_risky_window", st.window_requests);
                    rr.counters.add("repeat_call_returned_without_use_round", st.use_rounds_skipped);
                    rr.counters.max("max_steps_in_a_run", st.steps as u64);
                    for a in &st.trace {
                        rr.counters.add(&format!("step_{}", a.split(':').next().unwrap()), 1);
                    }
                    if st.trace.iter().any(|a| a.starts_with("kill") || ["add", "up", "enable", "rerack"].contains(&a.as_str())) && st.strict_frames > 0 {
                        rr.nontrivial(1);
                    }
                    states.lock().unwrap().extend(st.states.iter().copied());
                    if st.trace.iter().any(|a| a.starts_with("kill")) && st.trace.iter().any(|a| ["add", "up", "enable", "rerack"].contains(&a.as_str())) && st.calls_ok as usize == cfg.calls {
                        rr.sample(json!({"cfg": cfg.json(), "choices": ch.choices(), "steps": st.trace, "requests": st.requests, "frames_checked_strict": st.strict_frames}));
                    }
                    let key = format!("{:?}|{:?}", cfg.json().to_string(), st.trace);
                    traces.lock().unwrap().insert(key);
                    // determinism audit: a deterministic 1-in-8 subset is executed again with the same choices
                    if vcore::fnv64(format!("{:?}", ch.choices()).as_bytes()) % 8 == 0 {
                        // (same rule: a replay that stalls or differs is repeated, only a persistent difference counts)
                        let mut attempt = 0;
                        let replayed = loop {
                            attempt += 1;
                            let mut ch2 = Chooser::new(ch.choices());
                            let out2 = run_blocking(*cfg, &mut ch2);
                            let good = matches!(&out2, Ok(st2) if st2.trace == st.trace && st2.states == st.states) || matches!(&out2, Err(Fail::Violation(..)));
                            if good || attempt == 3 {
                                break out2;
                            }
                            rr.counters.add("audit_replays_repeated", 1);
                        };
                        match replayed {
                            Ok(st2) if st2.trace == st.trace && st2.states == st.states => {
                                audited.fetch_add(1, Ordering::Relaxed);
                            }
                            Ok(st2) => {
                                let d = st.state_strs.iter().zip(st2.state_strs.iter()).position(|(a, b)| a != b);
                                vcore::machinery_error(&format!(
                                    "replay of {:?} diverged: steps {:?} vs {:?}; first differing state #{d:?}: {:?} vs {:?}",
                                    ch.choices(),
                                    st.trace,
                                    st2.trace,
                                    d.map(|i| &st.state_strs[i]),
                                    d.map(|i| &st2.state_strs[i])
                                ))
                            }
                            Err(Fail::Violation(k, w)) => rr.violation(&k, &w, json!({"leg":"order","cfg":cfg.json(),"choices":ch.choices()})),
                            Err(Fail::Stuck(e)) => vcore::machinery_error(&format!("replay of {:?} stalled: {e}", ch.choices())),
                        }
                    }
                    Ok(())
                }
                Err(Fail::Violation(k, w)) => {
                    rr.eval(1);
                    rr.violation(&k, &w, json!({"leg":"order","cfg":cfg.json(),"choices":ch.choices()}));
                    Err(w)
                }
                Err(Fail::Stuck(e)) => {
                    rr.eval(1);
                    rr.counters.add("model_mispredictions_without_claim", 1);
                    let msg = format!("cfg {} choices {:?}: {e}", cfg.json(), ch.choices());
                    let mut g = stalls.lock().unwrap();
                    g.push(msg);
                    if g.len() > 40 {
                        vcore::machinery_error(&format!("more than 40 model mispredictions, first: {}", g[0]));
                    }
                    Ok(())
                }
            }
        });
        if !res.divergences.is_empty() {
            vcore::machinery_error(&format!("replay divergence: {:?}", res.divergences));
        }
        if let Some(c) = &res.capped {
            exhaustive.store(false, Ordering::Relaxed);
            r.note(&format!("capped_cfg_pool{}_calls{}", cfg.pool, cfg.calls), json!(c));
        }
        total_exec.fetch_add(res.executions, Ordering::Relaxed);
        if r.violation_count() > 0 {
            println!("cfg {} bound {} -> {} executions, stopping at the first violation", cfg.json(), bound, res.executions);
            break;
        }
        println!("cfg {} bound {} -> {} executions, longest {} choice points, {} violations", cfg.json(), bound, res.executions, res.max_points, res.violations.len());
      }
    };
    let (lane_b, lane_a): (Vec<Cfg>, Vec<Cfg>) = cfgs.iter().partition(|c| c.topo != 0 || c.sharded || c.kills > 1 || c.variant >= 5 || c.drops > 0 || c.zero_token || c.excess);
    let jobs = r.args.jobs.min(16);
    std::thread::scope(|s| {
        s.spawn(|| run_lane(&lane_b, if thorough { 10 } else { 6 }));
        run_lane(&lane_a, jobs);
    });
    r.states.store(states.lock().unwrap().len() as u64, Ordering::Relaxed);
    r.traces_validated.store(audited.load(Ordering::Relaxed), Ordering::Relaxed);
    r.note("executions", json!(total_exec.load(Ordering::Relaxed)));
    r.note("distinct_step_sequences", json!(traces.lock().unwrap().len()));
    r.note("deviation_bound_completed", json!(bound));
    r.note("configurations", json!(cfgs.iter().map(|c| c.json()).collect::<Vec<_>>()));
    r.set_exhaustive(exhaustive.load(Ordering::Relaxed));
    r.set_rule("executions containing a connection kill or a node addition in which at least one request frame was checked against a single required keyspace");
    r.assume("client-internal task scheduling is whatever the OS produces (engine E-MOCK); the oracle holds under every client schedule");
    r.assume("default step = release the first parked action in (node, connection) order, else start the next call; every other enabled action costs one deviation");
    {
        let g = stalls.lock().unwrap();
        if !g.is_empty() {
            r.note("model_mispredictions", json!(g.iter().take(5).collect::<Vec<_>>()));
            if r.violation_count() == 0 {
                // no schedule violated the property, but the causal model was wrong somewhere: not a verdict
                vcore::machinery_error(&format!("{} model misprediction(s) and no violation; first: {}", g.len(), g[0]));
            }
        }
    }
    if r.violation_count() == 0 && traces.lock().unwrap().len() < 2 {
        vcore::machinery_error("vacuous: fewer than 2 distinct step sequences");
    }
    r.finish();
}
