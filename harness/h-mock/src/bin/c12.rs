//! C12 - token-aware requests are first sent to an owning replica and shard.
//! Engine E-MOCK: a real `Session` against `mockcluster`, one cluster per descriptor of
//! `c12_model::enumerate` (node counts x DC splits x shard patterns x pool size x tablets x vnodes),
//! run concurrently (every cluster draws its own loopback addresses). Inside one cluster: a session
//! without location preference and one per DC preferred at session level; every keyspace
//! (SimpleStrategy RF 1..3, NetworkTopologyStrategy maps incl. an RF-0 entry, optionally a tablet
//! keyspace; all with a table called `t`) x every policy x every statement kind (plain / LWT-marked
//! through execute_unpaged, a SELECT through execute_single_page / execute_iter) x every cell key.
//! Histories after the normal phase (a third of the clusters each): a node restarts with other
//! sharding parameters; a node goes down; a node is reported in another datacenter and the
//! metadata is refreshed. The oracle reads the mock's log.
//!
//! Waits are conditions: mock-side "every node has its pool connections READY", client-side
//! "every one of those connections has carried a probe sent through
//! `SingleTargetLoadBalancingPolicy`"; for tablets "the client's locator lists the delivered
//! tablet" (a wait condition only - the verdict is the mock's log); for a killed node
//! "`Node::is_connected()` is false".
use h_mock::c12_model::{self as model, Allowed, CellKey, Desc, KsCfg, Layout, Policy, TABLET_KS};
use mockcluster::wire::{ColType, Envelope, Opcode, Response, TABLETS_PAYLOAD_KEY, col, tablet_payload};
use mockcluster::{ConnInfo, KeyspaceSpec, LogEntry, MockCluster, NodeSpec, Reply, ReqCtx, Script, TableSpec};
use scylla::client::PoolSize;
use scylla::client::execution_profile::{ExecutionProfile, ExecutionProfileHandle};
use scylla::client::session::Session;
use scylla::client::session_builder::SessionBuilder;
use scylla::policies::load_balancing::{DefaultPolicy, LoadBalancingPolicy, NodeIdentifier, SingleTargetLoadBalancingPolicy};
use scylla::response::PagingState;
use scylla::routing::Token;
use scylla::statement::prepared::PreparedStatement;
use scylla::statement::unprepared::Statement;
use serde_json::{Value, json};
use std::collections::{BTreeMap, BTreeSet};
use std::num::NonZeroUsize;
use std::sync::Arc;
use std::sync::atomic::{AtomicBool, AtomicU64, AtomicUsize, Ordering};
use std::time::{Duration, Instant};
use vcore::Report;

const PROBE: &str = "SELECT probe FROM c12.probe";
const DEADLINE: Duration = mockcluster::DEADLINE;
/// Set once a delivered tablet was not learnt within the deadline: later clusters do not wait for the same thing again.
static TABLET_NOT_LEARNT: AtomicBool = AtomicBool::new(false);
const LWT_MASK: u32 = 0x8000_0000;

/// How one logical request is issued. Bind markers are always (b, a); `a` is the partition key, `b` the request serial.
#[derive(Clone, Copy, Debug, PartialEq, Eq, PartialOrd, Ord)]
enum Kind {
    /// INSERT through execute_unpaged
    Insert,
    /// conditional UPDATE, marked as LWT in the PREPARED flags (deterministic-replica-order path), execute_unpaged
    Lwt,
    /// SELECT through execute_single_page
    Page,
    /// SELECT through execute_iter (the pager builds its own routing information)
    Iter,
}
impl Kind {
    fn label(self) -> &'static str {
        match self {
            Kind::Insert => "insert",
            Kind::Lwt => "lwt",
            Kind::Page => "page",
            Kind::Iter => "iter",
        }
    }
    fn parse(s: &str) -> Kind {
        match s {
            "lwt" => Kind::Lwt,
            "page" => Kind::Page,
            "iter" => Kind::Iter,
            _ => Kind::Insert,
        }
    }
    /// statement slot: 0 insert, 1 lwt, 2 select
    fn stmt(self) -> u8 {
        match self {
            Kind::Insert => 0,
            Kind::Lwt => 1,
            Kind::Page | Kind::Iter => 2,
        }
    }
}
fn stmt_text(ks: &str, stmt: u8) -> String {
    match stmt {
        0 => format!("INSERT INTO {ks}.t (b, a) VALUES (?, ?)"),
        1 => format!("UPDATE {ks}.t SET b = ? WHERE a = ? IF EXISTS"),
        _ => format!("SELECT b FROM {ks}.t WHERE b = ? AND a = ? ALLOW FILTERING"),
    }
}

struct TabletWorld {
    generation: AtomicUsize,
    always_send: AtomicBool,
    payloads_sent: AtomicU64,
}

#[derive(Clone, Debug)]
struct Only {
    /// "main", "restart1".."restart3", "down", "moved"
    phase: String,
    kind: Kind,
    ks: String,
    policy: Policy,
    key: i32,
    generation: usize,
}

fn machinery(cluster: &MockCluster, desc: &Desc, msg: &str) -> ! {
    eprintln!("{}", cluster.dump_log());
    vcore::machinery_error(&format!("C12 [{}]: {msg}", desc.label()))
}

fn policy_handle(p: &Policy) -> ExecutionProfileHandle {
    let lbp: Arc<dyn LoadBalancingPolicy> = match p {
        Policy::Default => DefaultPolicy::builder().build(),
        Policy::PreferDc { dc, failover } => DefaultPolicy::builder().prefer_datacenter(dc.clone()).permit_dc_failover(*failover).build(),
        Policy::PreferRack { dc, rack, failover } => DefaultPolicy::builder().prefer_datacenter_and_rack(dc.clone(), rack.clone()).permit_dc_failover(*failover).build(),
        // the preference lives in the session configuration; the policy itself has none
        Policy::SessionPrefer { failover, .. } => DefaultPolicy::builder().permit_dc_failover(*failover).build(),
    };
    ExecutionProfile::builder().load_balancing_policy(lbp).build().into_handle()
}

fn pool_conns(cs: &[ConnInfo], node: usize) -> Vec<&ConnInfo> {
    cs.iter().filter(|c| c.node == node && c.open && c.ready && c.registered.is_empty()).collect()
}

/// Mock-side "pools are full": per node (except the ones in `down`) exactly the connections the pool size asks for,
/// each READY, on distinct shards, and no connection anywhere that has not finished its handshake.
fn pools_full(layout: &Layout, cs: &[ConnInfo], down: &BTreeSet<usize>) -> Option<Vec<ConnInfo>> {
    let mut all = Vec::new();
    for (i, n) in layout.nodes.iter().enumerate() {
        if down.contains(&i) {
            continue;
        }
        let pc = pool_conns(cs, i);
        let k = layout.desc.pool_n.max(1);
        let ok = match (layout.desc.per_shard, n.shards) {
            // PerShard(k): exactly k connections bound to every shard
            (true, Some((nr, _))) => pc.len() == nr as usize * k && (0..nr).all(|s| pc.iter().filter(|c| c.shard == Some(s)).count() == k),
            // PerHost(k), or a node that is not sharded: k connections, wherever the server put them
            _ => pc.len() == k,
        };
        if !ok {
            return None;
        }
        all.extend(pc.into_iter().cloned());
    }
    if cs.iter().any(|c| c.open && !c.ready) {
        return None;
    }
    Some(all)
}

async fn poll_until(what: &str, mut f: impl FnMut() -> bool) -> Result<(), String> {
    let t0 = Instant::now();
    loop {
        if f() {
            return Ok(());
        }
        if t0.elapsed() > DEADLINE {
            return Err(format!("deadline ({DEADLINE:?}) passed waiting for: {what}"));
        }
        tokio::time::sleep(Duration::from_micros(300)).await; // poll interval of a condition wait, not a verdict
    }
}

/// The client-side view of the tablet table: (host id, shard) pairs its locator lists for the token.
fn client_tablet_view(session: &Session, token: i64) -> BTreeSet<(uuid::Uuid, u32)> {
    let state = session.get_cluster_state();
    let Some(ks) = state.get_keyspace(TABLET_KS) else { return BTreeSet::new() };
    let spec = scylla::frame::response::result::TableSpec::borrowed(TABLET_KS, "t");
    state.replica_locator().replicas_for_token(Token::new(token), &ks.strategy, None, &spec).into_iter().map(|(n, s)| (n.host_id, s)).collect()
}

/// Client side of "pools are full": every READY pool connection the mock has seen has carried a probe, i.e. the
/// client has put it into its pool (however it filed it).
/// Returns false (after recording a violation) if the deadline passes: the awaited condition is about what the DRIVER does
/// with connections the server has completed, not about the mock.
async fn confirm_pools(r: &Report, desc: &Desc, layout: &Layout, cluster: &MockCluster, session: &Session, pool: &[ConnInfo], note: &str) -> bool {
    for i in 0..layout.nodes.len() {
        let host = cluster.host_id(i);
        let want: BTreeSet<u64> = pool.iter().filter(|c| c.node == i).map(|c| c.id).collect();
        let aims: Vec<Option<u32>> = match layout.nodes[i].shards {
            Some((nr, _)) => (0..nr as u32).map(Some).collect(),
            None => vec![None],
        };
        let mut seen: BTreeSet<u64> = BTreeSet::new();
        let t0 = Instant::now();
        let mut k = 0usize;
        while !want.is_subset(&seen) {
            let mut probe = Statement::new(PROBE);
            let lbp = SingleTargetLoadBalancingPolicy::new(NodeIdentifier::HostId(host), aims[k % aims.len()]);
            probe.set_execution_profile_handle(Some(ExecutionProfile::builder().load_balancing_policy(lbp).build().into_handle()));
            k += 1;
            let from = cluster.log_len();
            let ok = session.query_unpaged(probe, ()).await.is_ok();
            let before = seen.len();
            for e in cluster.log_since(from) {
                if e.is_stmt(PROBE) && e.node == i {
                    seen.insert(e.conn);
                }
            }
            r.counters.add("pool_probes", 1);
            if t0.elapsed() > DEADLINE {
                r.violation(
                    "pools:ready-connection-never-carries-a-request",
                    &format!("{}{note}: the mock completed the handshake of pool connections {want:?} of node {i}, but within {DEADLINE:?} requests aimed at that node (every shard in turn) only ever travelled on {seen:?}", desc.label()),
                    json!({"desc": desc.to_json(), "only": {"phase": "ports", "ks": "s1", "stmt": "insert", "policy": "default", "key": 0, "generation": 0}}),
                );
                return false;
            }
            if !ok || seen.len() == before {
                tokio::time::sleep(Duration::from_micros(200)).await; // poll interval of a condition wait
            }
        }
    }
    true
}

/// Mock side of "where do the connections come from": every pool connection leaves from the configured local address (if
/// one is configured), and every connection accepted on the shard-aware port has a source port inside the configured
/// shard-aware local port range that is congruent to the shard the connection then serves (ScyllaDB's rule; in the NAT
/// clusters: the shard the map assigns to that port).
fn check_ports(r: &Report, desc: &Desc, layout: &Layout, cluster: &MockCluster, session_log_start: u64, pool: &[ConnInfo], local_ip: Option<std::net::IpAddr>, note: &str) {
    let (lo, hi) = desc.port_range();
    let case = json!({"desc": desc.to_json(), "only": {"phase": "ports", "ks": "s1", "stmt": "insert", "policy": "default", "key": 0, "generation": 0}});
    // A connection opened through the shard-aware port is opened FOR one missing shard, from a port drawn for that shard.
    // If the port is congruent to it the server binds the connection to that shard and the pool keeps it; a connection
    // the client throws away again was bound to a shard that was not the missing one (in the NAT clusters the server's
    // map is a permutation that keeps every connection useful, so the rule holds there too).
    for e in cluster.log_since(session_log_start) {
        if let mockcluster::LogKind::Closed { by } = &e.kind {
            if !matches!(by, mockcluster::ClosedBy::Server(_)) && cluster.conn(e.conn).map(|c| c.shard_port).unwrap_or(false) {
                r.violation(
                    "ports:shard-aware-connection-discarded",
                    &format!("{}{note}: the client opened a connection through the shard-aware port of node {} (from {:?}, bound to shard {:?}) and closed it again while filling the pool: its source port was not congruent to the shard it was opened for", desc.label(), e.node, cluster.conn(e.conn).map(|c| c.peer), e.shard),
                    case.clone(),
                );
            }
        }
    }
    for c in pool {
        r.counters.add("pool_connections_checked", 1);
        if r.property == "C11" {
            r.eval(1);
        }
        if let Some(ip) = local_ip {
            if c.peer.ip() != ip {
                r.violation("ports:source-address", &format!("{}{note}: a pool connection to node {} comes from {} although local_ip_address is {ip}", desc.label(), c.node, c.peer), case.clone());
            }
        }
        if !c.shard_port {
            continue;
        }
        r.counters.add("shard_aware_port_connections_checked", 1);
        let Some((nr, _)) = layout.nodes[c.node].shards else { continue };
        let port = c.peer.port();
        if port < lo || port > hi {
            r.violation("ports:source-port-outside-the-configured-range", &format!("{}{note}: a connection accepted on the shard-aware port of node {} left from port {port}; shard_aware_local_port_range is {lo}..={hi}", desc.label(), c.node), case.clone());
        }
        let asked = port % nr;
        let want = if desc.nat { (nr - asked) % nr } else { asked };
        if c.shard != Some(want) {
            machinery_error_ports(desc, &format!("mock bound port {port} to shard {:?}, expected {want}", c.shard));
        }
        // the driver opened this connection for one particular missing shard: with k connections per shard wanted and
        // found, every shard is served by exactly k connections, so a port that is congruent to the served shard is one
        // that was drawn for it (a kernel-chosen port lands on the right shard only by chance - and then outside the range)
        r.nontrivial(1);
    }
}
fn machinery_error_ports(desc: &Desc, msg: &str) -> ! {
    vcore::machinery_error(&format!("C12 [{}]: {msg}", desc.label()))
}

struct Run<'a> {
    r: &'a Report,
    desc: &'a Desc,
    layout: Arc<Layout>,
    cluster: MockCluster,
    session: Session,
    prepared: BTreeMap<(String, u8), PreparedStatement>,
    pool_has: BTreeSet<(usize, Option<u16>)>,
    /// nodes that were killed and that the client reports as not connected
    down: BTreeSet<usize>,
    serial: i32,
    replaying: bool,
    phase: String,
    phase_note: String,
    outcomes: BTreeSet<(usize, Option<u16>)>,
    /// only the source-address / source-port sub-check (leg ports-e2e of C11): no requests
    ports_only: bool,
}

impl Run<'_> {
    fn case(&self, ks: &str, kind: Kind, policy: &Policy, key: i32, generation: usize) -> Value {
        json!({"desc": self.desc.to_json(), "only": {"phase": self.phase, "ks": ks, "stmt": kind.label(), "policy": policy.label(), "key": key, "generation": generation}})
    }

    /// One logical request + oracle.
    async fn request(&mut self, ps: &PreparedStatement, ks: &KsCfg, kind: Kind, policy: &Policy, ck: &CellKey, generation: usize) {
        let r = self.r;
        self.serial += 1;
        let serial = self.serial;
        let from = self.cluster.log_len();
        let case = self.case(&ks.name, kind, policy, ck.key, generation);
        // the three public ways to execute a prepared statement
        let res: Result<Option<scylla::response::query_result::QueryResult>, String> = match kind {
            Kind::Insert | Kind::Lwt => self.session.execute_unpaged(ps, (serial, ck.key)).await.map(Some).map_err(|e| e.to_string()),
            Kind::Page => self.session.execute_single_page(ps, (serial, ck.key), PagingState::start()).await.map(|x| Some(x.0)).map_err(|e| e.to_string()),
            Kind::Iter => self.session.execute_iter(ps.clone(), (serial, ck.key)).await.map(|_pager| None).map_err(|e| e.to_string()),
        };
        let serial_bytes = serial.to_be_bytes();
        let execs: Vec<Arc<LogEntry>> = self
            .cluster
            .log_since(from)
            .into_iter()
            .filter(|e| e.opcode() == Some(Opcode::Execute) && e.frame().and_then(|f| f.request.params()).and_then(|p| p.values.first()).and_then(|v| v.as_bytes()) == Some(&serial_bytes[..]))
            .collect();
        r.eval(1);
        let allowed = if ks.tablet_based { model::allowed_tablet(&self.layout, generation, policy, ck.token, &self.down) } else { model::allowed_vnode(&self.layout, &ks.strat, policy, ck.token, &self.down) };
        let res = match res {
            Ok(x) => x,
            // nothing the policy permits is reachable (e.g. the preferred datacenter's only node is down and failover is
            // not permitted): the property says nothing, and the driver may well have nobody to send the request to
            Err(_) if execs.is_empty() && matches!(allowed, Allowed::Unconstrained { .. }) && self.phase != "main" => {
                r.counters.add("requests_failed_with_no_permitted_node_reachable", 1);
                return;
            }
            Err(e) if execs.is_empty() && !matches!(allowed, Allowed::Unconstrained { .. }) => {
                r.violation("request:no-attempt-though-a-permitted-replica-is-reachable", &format!("{}{} ks={} stmt={} policy={} key={}: the request failed without any EXECUTE on the wire ({e}); permitted and reachable: {allowed:?}", self.desc.label(), self.phase_note, ks.name, kind.label(), policy.label(), ck.key), case);
                return;
            }
            Err(e) => machinery(&self.cluster, self.desc, &format!("request {case} failed ({} EXECUTE frames on the wire): {e}", execs.len())),
        };
        let Some(first) = execs.first() else { machinery(&self.cluster, self.desc, &format!("request {case} succeeded but no EXECUTE frame carries its serial")) };
        let last = execs.last().unwrap();
        // (the first frame of a request answered UNPREPARED resolves to no text; the re-sent one does)
        if !last.is_stmt(&stmt_text(&ks.name, kind.stmt())) {
            machinery(&self.cluster, self.desc, &format!("request {case}: EXECUTE resolves to {:?}", last.statement()));
        }
        let bound_key = first.frame().and_then(|f| f.request.params()).and_then(|p| p.values.get(1)).and_then(|v| v.as_bytes().map(|b| b.to_vec()));
        if bound_key.as_deref() != Some(&ck.key.to_be_bytes()[..]) {
            machinery(&self.cluster, self.desc, &format!("request {case}: bound key on the wire is {bound_key:?}"));
        }
        if execs.len() > 1 {
            r.counters.add("requests_with_more_than_one_execute_frame", 1);
        }
        let (node, shard) = (first.node, first.shard);
        self.outcomes.insert((node, shard));
        let here = format!("{}{} ks={} stmt={} policy={} key={} token={}", self.desc.label(), self.phase_note, ks.name, kind.label(), policy.label(), ck.key, ck.token);
        r.counters.add(&format!("requests_{}", kind.label()), 1);
        if self.down.contains(&node) {
            machinery(&self.cluster, self.desc, &format!("{here}: a frame arrived on killed node {node}"));
        }

        // ---- the oracle proper
        match &allowed {
            Allowed::Unconstrained { .. } => {
                r.counters.add("requests_without_permitted_replica", 1);
            }
            Allowed::Nodes { nodes, narrowed_to_dc } => {
                if *narrowed_to_dc {
                    r.counters.add("requests_where_dc_preference_narrows", 1);
                }
                if nodes.len() < self.layout.nodes.len() {
                    r.nontrivial(1);
                }
                let full = self.layout.ring.replicas_ring_order(ck.token, &ks.strat);
                if !self.down.is_empty() && full.iter().any(|n| self.down.contains(n)) {
                    r.counters.add("requests_with_a_replica_down_and_another_up", 1);
                }
                if !nodes.contains(&node) {
                    let key = if full.contains(&node) { "vnode:first-attempt-outside-preferred-dc" } else { "vnode:first-attempt-not-a-replica" };
                    r.violation(key, &format!("{here}: first EXECUTE arrived on node {node} ({}); reference replicas permitted first: {nodes:?} (all replicas {full:?}, down {:?})", self.layout.node_dc(node), self.down), case.clone());
                } else if let Some((nr, msb)) = self.layout.nodes[node].shards {
                    let owner = cqlref::shard::shard_of(ck.token, nr, msb) as u16;
                    if self.pool_has.contains(&(node, Some(owner))) {
                        r.counters.add("shard_assertions", 1);
                        if nr > 1 {
                            r.counters.add("shard_assertions_on_multi_shard_nodes", 1);
                        }
                        if shard != Some(owner) {
                            r.violation("vnode:shard-not-owner", &format!("{here}: first EXECUTE arrived on node {node} shard {shard:?}; the token belongs to shard {owner} of that node ({nr} shards, msb {msb}) and the pool holds a connection to it"), case.clone());
                        }
                    } else {
                        r.counters.add("requests_pool_without_owner_shard_connection", 1);
                    }
                } else if shard.is_some() {
                    machinery(&self.cluster, self.desc, "mock reports a shard for an unsharded node");
                }
            }
            Allowed::Pairs { pairs, narrowed_to_dc } => {
                if *narrowed_to_dc {
                    r.counters.add("requests_where_dc_preference_narrows", 1);
                }
                r.nontrivial(1);
                let nodes: Vec<usize> = pairs.iter().map(|p| p.0).collect();
                if !nodes.contains(&node) {
                    let all = &self.layout.tablet_maps[generation][self.layout.tablet_of(generation, ck.token).unwrap()].replicas;
                    let key = if all.iter().any(|p| p.0 == node) { "tablet:first-attempt-outside-preferred-dc" } else { "tablet:first-attempt-not-a-tablet-replica" };
                    r.violation(key, &format!("{here}: first EXECUTE arrived on node {node}; the tablet (map generation {generation}) lists {all:?}, permitted first: {pairs:?} (down {:?})", self.down), case.clone());
                } else {
                    let want: Vec<u16> = pairs.iter().filter(|p| p.0 == node).map(|p| p.1 as u16).collect();
                    if want.iter().any(|s| self.pool_has.contains(&(node, Some(*s)))) {
                        r.counters.add("shard_assertions", 1);
                        r.counters.add("tablet_shard_assertions", 1);
                        if !want.iter().any(|s| shard == Some(*s)) {
                            r.violation("tablet:shard-not-the-tablets", &format!("{here}: first EXECUTE arrived on node {node} shard {shard:?}; the tablet lists shard(s) {want:?} on that node and the pool holds such a connection"), case.clone());
                        }
                    } else {
                        r.counters.add("requests_pool_without_owner_shard_connection", 1);
                    }
                }
            }
        }

        // ---- QueryResult::request_coordinator agrees with the mock (connection that served the answer)
        if let Some(res) = res {
            let co = res.request_coordinator();
            let conn = self.cluster.conn(last.conn);
            let want_host = self.cluster.host_id(last.node);
            if co.node().host_id != want_host {
                r.violation("coordinator:node", &format!("{here}: request_coordinator() names host {} but the request was served by node {} ({want_host})", co.node().host_id, last.node), case.clone());
            }
            if co.shard() != last.shard.map(|s| s as u32) {
                r.violation("coordinator:shard", &format!("{here}: request_coordinator().shard() = {:?}, the serving connection is bound to shard {:?} of node {}", co.shard(), last.shard, last.node), case.clone());
            }
            if let Some(c) = conn {
                let port = if c.shard_port { self.cluster.shard_aware_port() } else { self.cluster.port() };
                let want = std::net::SocketAddr::new(self.cluster.ip(last.node).into(), port);
                if co.connection_address() != want {
                    r.violation("coordinator:address", &format!("{here}: request_coordinator().connection_address() = {}, the serving connection was accepted on {want}", co.connection_address()), case.clone());
                }
            }
        }
    }

    /// policies x keyspaces x cell keys x statement kinds of the current phase.
    #[allow(clippy::too_many_arguments)]
    async fn sweep(&mut self, policies: &[Policy], ks_ok: &dyn Fn(&KsCfg, &Policy) -> bool, keys: &[CellKey], generation: usize, only: &Option<Only>, repeats: usize, evict: bool) -> u64 {
        let layout = self.layout.clone();
        let mut issued = 0u64;
        if self.ports_only {
            return 0;
        }
        for (pi, policy) in policies.iter().enumerate() {
            if evict && pi == 1 && only.is_none() {
                // history: every node forgets its prepared statements once; the first execution per node is answered
                // UNPREPARED and re-sent - the first frame is still the first attempt
                for n in 0..layout.nodes.len() {
                    self.cluster.evict_prepared(n, None);
                }
                self.r.counters.add("prepared_caches_evicted", layout.nodes.len() as u64);
            }
            let handle = policy_handle(policy);
            for ks in &layout.keyspaces {
                if !ks_ok(ks, policy) {
                    continue;
                }
                let stmts: Vec<PreparedStatement> = (0u8..3)
                    .map(|s| {
                        let mut ps = self.prepared[&(ks.name.clone(), s)].clone();
                        ps.set_execution_profile_handle(Some(handle.clone()));
                        ps
                    })
                    .collect();
                for (ki, ck) in keys.iter().enumerate() {
                    for kind in [Kind::Insert, Kind::Lwt, if ki % 2 == 0 { Kind::Page } else { Kind::Iter }] {
                        if let Some(o) = only {
                            if o.phase != self.phase || o.ks != ks.name || o.kind != kind || &o.policy != policy || o.key != ck.key || o.generation != generation {
                                continue;
                            }
                        }
                        // the paged entry points share everything below the routing information with execute_unpaged: one pass
                        // (an LWT-marked statement takes the first replica in a deterministic order: repeating it shows nothing new)
                        let n = if self.replaying { 16 } else if kind != Kind::Insert { 1 } else { repeats };
                        for _ in 0..n {
                            self.request(&stmts[kind.stmt() as usize], ks, kind, policy, ck, generation).await;
                            issued += 1;
                        }
                    }
                }
            }
        }
        issued
    }

    /// Public functions of `ClusterState` that answer from the same state: `compute_token` and `get_token_endpoints`.
    fn check_state_api(&self, keys: &[CellKey], generation: usize, tablet_table: bool) {
        let r = self.r;
        let state = self.session.get_cluster_state();
        for ks in self.layout.keyspaces.iter().filter(|k| k.tablet_based == tablet_table) {
            for ck in keys {
                r.counters.add("state_api_checks", 1);
                let case = json!({"desc": self.desc.to_json(), "only": {"phase": "main", "ks": ks.name, "stmt": "insert", "policy": "default", "key": ck.key, "generation": generation}});
                match state.compute_token(&ks.name, "t", &(ck.key,)) {
                    Ok(t) if t.value() == ck.token => {}
                    other => r.violation("api:compute-token", &format!("{}: ClusterState::compute_token({}.t, key {}) = {:?}, the partitioner gives {}", self.desc.label(), ks.name, ck.key, other.map(|t| t.value()).map_err(|e| e.to_string()), ck.token), case.clone()),
                }
                let got: BTreeSet<(uuid::Uuid, u32)> = state.get_token_endpoints(&ks.name, "t", Token::new(ck.token)).into_iter().map(|(n, s)| (n.host_id, s)).collect();
                let want: BTreeSet<(uuid::Uuid, u32)> = if ks.tablet_based {
                    match self.layout.tablet_of(generation, ck.token) {
                        Some(t) => self.layout.tablet_maps[generation][t].replicas.iter().map(|(n, s)| (self.cluster.host_id(*n), *s as u32)).collect(),
                        None => BTreeSet::new(),
                    }
                } else {
                    self.layout.ring.replicas_ring_order(ck.token, &ks.strat).into_iter().map(|n| (self.cluster.host_id(n), self.layout.nodes[n].shards.map(|(nr, msb)| cqlref::shard::shard_of(ck.token, nr, msb)).unwrap_or(0))).collect()
                };
                if got != want {
                    r.violation("api:token-endpoints", &format!("{}: ClusterState::get_token_endpoints({}.t, token {}) = {got:?}, reference replicas with owning shards: {want:?}", self.desc.label(), ks.name, ck.token), case);
                }
            }
        }
    }
}

/// What ScyllaDB does for a tablet table: a request that reached a node/shard that is not a replica of the tablet
/// covering the key gets the tablet back in the custom payload of the (otherwise unchanged) answer.
fn tablet_reply(ctx: &ReqCtx, layout: &Layout, world: &TabletWorld, answer: Response) -> Reply {
    let key = ctx.params().and_then(|p| p.values.get(1)).and_then(|v| v.as_bytes()).and_then(|b| <[u8; 4]>::try_from(b).ok());
    let Some(key) = key else { return Reply::response(answer) };
    let token = cqlref::murmur3::murmur3_token(&key);
    let generation = world.generation.load(Ordering::SeqCst);
    let Some(t) = layout.tablet_of(generation, token) else { return Reply::response(answer) };
    let tab = &layout.tablet_maps[generation][t];
    let here = (ctx.node, ctx.shard.map(|s| s as i32).unwrap_or(0));
    if tab.replicas.contains(&here) && !world.always_send.load(Ordering::SeqCst) {
        return Reply::response(answer);
    }
    world.payloads_sent.fetch_add(1, Ordering::SeqCst);
    let reps: Vec<(uuid::Uuid, i32)> = tab.replicas.iter().map(|(n, s)| (ctx.cluster.host_id(*n), *s)).collect();
    Reply::Frame(Envelope::from(answer).with_payload(TABLETS_PAYLOAD_KEY, tablet_payload(tab.first_exclusive, tab.last, &reps)))
}

async fn run_cluster(r: &Report, desc: &Desc, only: Option<Only>, ports_only: bool) {
    let ports_only = ports_only || only.as_ref().map(|o| o.phase == "ports").unwrap_or(false);
    // an address of this process's loopback block that no mock node listens on
    let local_ip: Option<std::net::IpAddr> = desc.local_ip.then(|| mockcluster::alloc_ip().into());
    let layout = Arc::new(model::build_layout(desc));
    let (keys, stats) = model::find_cell_keys(&layout, desc.keys_per_cell, 1_000_000);
    r.counters.add("cells_total", stats.cells_total as u64);
    r.counters.add("cells_hit", stats.cells_hit as u64);
    r.counters.add("cells_thin_not_required", stats.cells_thin as u64);
    r.counters.add("cells_thin_hit_anyway", stats.cells_thin_hit as u64);
    r.counters.add("cells_empty", stats.cells_empty as u64);
    r.counters.max("max_keys_scanned_in_one_cluster", stats.keys_scanned);
    r.counters.add("segments_total", stats.segments as u64);
    if stats.cells_hit != stats.cells_total {
        r.counters.add("clusters_with_unhit_cells", 1);
    }

    // ---- the mock
    let mut b = MockCluster::builder();
    for n in &layout.nodes {
        let mut spec = NodeSpec::new(&n.dc, &n.rack, n.tokens.clone());
        if let Some((nr, msb)) = n.shards {
            spec = spec.scylla(nr, msb);
        }
        if desc.tablets > 0 {
            spec = spec.tablets();
        }
        if let (true, Some((nr, _))) = (desc.nat, n.shards) {
            spec.plain_port_shard = mockcluster::PlainPortShard::Fixed(0);
            spec.shard_port_map = Some((0..nr).map(|i| (nr - i) % nr).collect());
        }
        if n.shards.is_some() {
            spec.lwt_mark = Some(LWT_MASK);
        }
        b = b.node(spec);
    }
    for ks in &layout.keyspaces {
        let table = TableSpec::new("t").pk("a", "int").col("b", "int");
        let spec = match &ks.strat {
            cqlref::placement::Strat::Simple(rf) => KeyspaceSpec::simple(&ks.name, *rf),
            cqlref::placement::Strat::Nts(e) => {
                let v: Vec<(&str, usize)> = e.iter().map(|(d, rf)| (d.as_str(), *rf)).collect();
                KeyspaceSpec::nts(&ks.name, &v)
            }
            _ => unreachable!(),
        };
        let spec = if ks.tablet_based { spec.tablets(desc.tablets as i32) } else { spec };
        b = b.keyspace(spec.table(table));
    }
    // never executed: a keyspace whose table `t` uses another partitioner - a lookup by table name alone would hand
    // its partitioner (or, for tablets, its map) to the tables called `t` of the other keyspaces
    {
        let mut t = TableSpec::new("t").pk("a", "int").col("b", "int");
        t.partitioner = Some("com.scylladb.dht.CDCPartitioner".into());
        b = b.keyspace(KeyspaceSpec::simple("cdc", 1).table(t));
    }
    let cluster = b.build().await.unwrap_or_else(|e| vcore::machinery_error(&e));
    let world = Arc::new(TabletWorld { generation: AtomicUsize::new(0), always_send: AtomicBool::new(false), payloads_sent: AtomicU64::new(0) });
    for ks in &layout.keyspaces {
        for stmt in 0u8..3 {
            let cols = vec![col(&ks.name, "t", "b", ColType::Int), col(&ks.name, "t", "a", ColType::Int)];
            let result_cols = vec![cols[0].clone()];
            let mut s = Script::new(&stmt_text(&ks.name, stmt)).bind(cols, vec![1]);
            s.lwt = stmt == 1;
            if stmt == 2 {
                s = s.rows(result_cols.clone(), Vec::new());
            }
            if ks.tablet_based {
                let (layout, world) = (layout.clone(), world.clone());
                s = s.reply(move |ctx| {
                    let answer = if stmt == 2 { Response::rows(result_cols.clone(), Vec::new()) } else { Response::Void };
                    tablet_reply(ctx, &layout, &world, answer)
                });
            }
            cluster.script(s);
        }
    }
    cluster.script(Script::new(PROBE));

    // ---- one session without a location preference, then one per datacenter preferred at session level
    let mut cfgs: Vec<Option<String>> = vec![None];
    // quick tier (one key per cell): the session-level sessions run in the clusters with 2 vnodes and in all clusters of <= 2 nodes
    if desc.keys_per_cell > 1 || desc.vnodes == 2 || layout.nodes.len() <= 2 || only.is_some() {
        cfgs.extend(layout.dcs.iter().cloned().map(Some));
    }
    let mut outcomes: BTreeSet<(usize, Option<u16>)> = BTreeSet::new();
    for session_pref in cfgs {
        if let Some(o) = &only {
            let wanted = match &o.policy {
                Policy::SessionPrefer { dc, .. } => Some(dc.clone()),
                _ => None,
            };
            if wanted != session_pref {
                continue;
            }
        }
        if ports_only && session_pref.is_some() {
            continue;
        }
        if !run_session(r, desc, &layout, &cluster, &world, &keys, session_pref, &only, &mut outcomes, ports_only, local_ip).await {
            cluster.shutdown().await;
            return;
        }
    }
    if let Some(u) = cluster.unexpected().first() {
        machinery(&cluster, desc, &format!("unscripted request reached the mock: {}", u.describe()));
    }
    r.counters.add("clusters", 1);
    r.counters.add("distinct_first_targets_summed_over_clusters", outcomes.len() as u64);
    r.counters.max("max_distinct_first_targets_in_one_cluster", outcomes.len() as u64);
    r.counters.add("cell_keys", keys.len() as u64);
    cluster.shutdown().await;
}

fn open_ids(cluster: &MockCluster) -> BTreeSet<u64> {
    cluster.open_conns(None).iter().map(|c| c.id).collect()
}

/// One session against the cluster: wait for full pools, prepare, (learn tablets,) run every request, then the
/// history phases. False = stop working on this cluster (a violation that makes the rest meaningless was recorded).
#[allow(clippy::too_many_arguments)]
async fn run_session(r: &Report, desc: &Desc, layout: &Arc<Layout>, cluster: &MockCluster, world: &Arc<TabletWorld>, keys: &[CellKey], session_pref: Option<String>, only: &Option<Only>, outcomes: &mut BTreeSet<(usize, Option<u16>)>, ports_only: bool, local_ip: Option<std::net::IpAddr>) -> bool {
    let cluster = cluster.clone();
    let session_log_start = cluster.log_len();
    let nobody: BTreeSet<usize> = BTreeSet::new();
    let k = NonZeroUsize::new(desc.pool_n.max(1)).unwrap();
    let mut sb = SessionBuilder::new().known_node(cluster.contact_point(0)).pool_size(if desc.per_shard { PoolSize::PerShard(k) } else { PoolSize::PerHost(k) });
    if let Some(dc) = &session_pref {
        sb = sb.prefer_datacenter(dc.clone());
    }
    if let Some(ip) = local_ip {
        sb = sb.local_ip_address(Some(ip));
    }
    if desc.narrow_ports {
        let (lo, hi) = desc.port_range();
        sb = sb.shard_aware_local_port_range(scylla::routing::ShardAwarePortRange::new(lo..=hi).unwrap_or_else(|e| vcore::machinery_error(&format!("port range: {e}"))));
    }
    let session = sb.build().await.unwrap_or_else(|e| machinery(&cluster, desc, &format!("session did not come up: {e}")));
    r.counters.add("sessions", 1);
    // ---- pools full: mock side (every pool connection READY), then client side (probes)
    let pool = cluster.wait_conns("every pool has its connections READY", DEADLINE, |cs| pools_full(layout, cs, &nobody)).await.unwrap_or_else(|e| machinery(&cluster, desc, &e));
    let pool_has: BTreeSet<(usize, Option<u16>)> = pool.iter().map(|c| (c.node, c.shard)).collect();
    if !confirm_pools(r, desc, layout, &cluster, &session, &pool, "").await {
        return false;
    }
    check_ports(r, desc, layout, &cluster, session_log_start, &pool, local_ip, "");
    let conns_at_start = open_ids(&cluster);
    // the driver's view of the metadata the mock served (guards against a harness that misdrives the session)
    {
        let st = session.get_cluster_state();
        if st.get_nodes_info().len() != layout.nodes.len() {
            machinery(&cluster, desc, "driver does not see every node");
        }
        for ks in &layout.keyspaces {
            match st.get_keyspace(&ks.name) {
                Some(k) if k.tablet_based == ks.tablet_based && k.tables.contains_key("t") => {}
                other => machinery(&cluster, desc, &format!("driver's view of keyspace {}: {:?}", ks.name, other.map(|k| (k.tablet_based, k.tables.len())))),
            }
        }
    }

    // ---- prepared statements
    let mut prepared: BTreeMap<(String, u8), PreparedStatement> = BTreeMap::new();
    for ks in &layout.keyspaces {
        for stmt in 0u8..3 {
            let ps = session.prepare(stmt_text(&ks.name, stmt)).await.unwrap_or_else(|e| machinery(&cluster, desc, &format!("prepare for {}: {e}", ks.name)));
            if ps.get_variable_pk_indexes().len() != 1 {
                machinery(&cluster, desc, "partition key index did not arrive");
            }
            // the mark only exists on ScyllaDB nodes; the PREPARED answer the driver keeps is the first one it got
            let all_scylla = layout.nodes.iter().all(|n| n.shards.is_some());
            if all_scylla && ps.is_confirmed_lwt() != (stmt == 1) {
                machinery(&cluster, desc, "LWT mark did not arrive as scripted");
            }
            prepared.insert((ks.name.clone(), stmt), ps);
        }
    }

    let replaying = only.is_some();
    let mut run = Run { r, desc, layout: layout.clone(), cluster: cluster.clone(), session, prepared, pool_has, down: BTreeSet::new(), serial: 0, replaying, phase: "main".into(), phase_note: String::new(), outcomes: BTreeSet::new(), ports_only };
    let policies = match &session_pref {
        None => model::policies(layout),
        Some(dc) => model::session_policies(dc),
    };
    // session-level preference: one pass per request (the same code below the preference lookup was repeated above)
    let base_repeats = if session_pref.is_some() { 1 } else { desc.repeats.max(1) };
    let generations: usize = layout.tablet_maps.len().max(1);
    if only.is_none() && !ports_only {
        run.check_state_api(keys, 0, false);
    }

    for generation in 0..generations {
        if let Some(o) = only {
            if generation > o.generation {
                break;
            }
        }
        // ---- tablets: deliver the map of this generation through payloads, wait until the client lists it
        if desc.tablets > 0 && !ports_only {
            let tks = layout.keyspaces.iter().find(|k| k.tablet_based).unwrap().clone();
            let mut ps = run.prepared[&(TABLET_KS.to_string(), 0)].clone();
            ps.set_execution_profile_handle(Some(policy_handle(&Policy::Default)));
            if generation == 0 {
                // not known yet: the client must list nothing for any token of the tablet table
                for ck in keys.iter() {
                    if !client_tablet_view(&run.session, ck.token).is_empty() {
                        machinery(&cluster, desc, "client lists tablet replicas before any payload was sent");
                    }
                }
            }
            if TABLET_NOT_LEARNT.load(Ordering::SeqCst) {
                r.counters.add("clusters_cut_short_after_tablet_not_learnt", 1);
                return false;
            }
            world.generation.store(generation, Ordering::SeqCst);
            world.always_send.store(true, Ordering::SeqCst);
            for (t, tab) in layout.tablet_maps[generation].iter().enumerate() {
                // the request that brings the payload: lowest key of the tablet; for the merge generation the key with the
                // highest token (the payload then arrives for a token of the upper one of the two tablets it replaces)
                let mut of_tablet = keys.iter().filter(|k| layout.tablet_of(generation, k.token) == Some(t));
                let ck = if generation >= 2 { of_tablet.max_by_key(|k| k.token) } else { of_tablet.next() };
                let Some(ck) = ck else { machinery(&cluster, desc, &format!("no key for tablet {t}")) };
                let before = world.payloads_sent.load(Ordering::SeqCst);
                run.serial += 1;
                let serial = run.serial;
                run.session.execute_unpaged(&ps, (serial, ck.key)).await.unwrap_or_else(|e| machinery(&cluster, desc, &format!("learning request failed: {e}")));
                if world.payloads_sent.load(Ordering::SeqCst) == before {
                    machinery(&cluster, desc, "learning request did not get a payload");
                }
                r.counters.add("tablet_payloads_delivered_for_learning", 1);
                let want: BTreeSet<(uuid::Uuid, u32)> = tab.replicas.iter().map(|(n, s)| (cluster.host_id(*n), *s as u32)).collect();
                let s2 = &run.session;
                let token = ck.token;
                // Merge generation: if the merged tablet has the very replicas of the upper tablet it replaces, the view at
                // the upper token equals `want` before the payload is processed and proves nothing - then the view at a
                // token of the lower tablet must have changed as well before the requests start.
                let mut also: Option<i64> = None;
                if generation >= 2 && t == 0 {
                    let mut a = layout.tablet_maps[generation - 1][1].replicas.clone();
                    let mut b = tab.replicas.clone();
                    a.sort();
                    b.sort();
                    if a == b {
                        also = keys.iter().filter(|k| layout.tablet_of(generation, k.token) == Some(0)).min_by_key(|k| k.token).map(|k| k.token);
                        r.counters.add("merge_learning_waits_on_both_halves", 1);
                    }
                }
                if let Err(e) = poll_until("client lists the delivered tablet", || (client_tablet_view(s2, token) == want && also.map(|x| client_tablet_view(s2, x) == want).unwrap_or(true)) || TABLET_NOT_LEARNT.load(Ordering::SeqCst)).await {
                    TABLET_NOT_LEARNT.store(true, Ordering::SeqCst);
                    r.violation(
                        "tablet:payload-not-learnt",
                        &format!("{}: tablet {t} of generation {generation} ({:?}) was delivered in a custom payload but the client's locator lists {:?} for token {token} ({e})", desc.label(), tab.replicas, client_tablet_view(s2, token)),
                        run.case(&tks.name, Kind::Insert, &Policy::Default, ck.key, generation),
                    );
                    return false;
                }
                if client_tablet_view(s2, token) != want {
                    r.counters.add("clusters_cut_short_after_tablet_not_learnt", 1);
                    return false;
                }
            }
            world.always_send.store(false, Ordering::SeqCst);
            if only.is_none() {
                run.check_state_api(keys, generation, true);
            }
        }

        // ---- all keyspaces x policies x cell keys
        let payloads_before = world.payloads_sent.load(Ordering::SeqCst);
        // later tablet generations: vnode keyspaces are re-checked once (generation 1), under the default policy
        let ks_ok = move |ks: &KsCfg, policy: &Policy| generation == 0 || ks.tablet_based || (generation == 1 && policy == &Policy::Default);
        let _ = run.sweep(&policies, &ks_ok, keys, generation, only, base_repeats, generation == 0 && session_pref.is_none()).await;
        r.counters.add("tablet_payloads_after_learning", world.payloads_sent.load(Ordering::SeqCst) - payloads_before);
    }

    // ---- nothing moved under the oracle's feet
    if conns_at_start != open_ids(&cluster) {
        machinery(&cluster, desc, "the set of open connections changed while the requests ran");
    }
    let last_generation = generations - 1;
    let wants_phase = |p: &str| only.as_ref().map(|o| o.phase.starts_with(p) || (o.phase == "ports" && p == "restart")).unwrap_or(true) && (!ports_only || p == "restart");

    // ---- history 1: a node "restarts" with other sharding parameters: same shard count but another msb_ignore, then
    // another shard count, then not sharded at all. All its pool connections are reset, the pool refills.
    let victim = layout.nodes.iter().rposition(|n| n.shards.is_some());
    if let (true, None, Some(v), true) = (desc.restart, &session_pref, victim, wants_phase("restart")) {
        let mut cur: Layout = (**layout).clone();
        let (nr0, msb0) = cur.nodes[v].shards.unwrap();
        let msb1 = if msb0 == 0 { 12 } else { 0 };
        let nr2 = if nr0 >= 3 { nr0 - 1 } else { nr0 + 1 };
        let steps: Vec<Option<(u16, u8)>> = vec![Some((nr0, msb1)), Some((nr2, msb1)), None];
        for (k, new_shards) in steps.into_iter().enumerate() {
            let step = k + 1;
            if let Some(o) = only {
                if o.phase != "ports" && o.phase.as_str() < format!("restart{step}").as_str() {
                    break;
                }
            }
            cluster.set_sharding(v, new_shards);
            cur.nodes[v].shards = new_shards;
            cur.desc.shards[v] = new_shards;
            let victims: Vec<u64> = cluster.open_conns(Some(v)).iter().filter(|c| c.registered.is_empty()).map(|c| c.id).collect();
            for id in &victims {
                cluster.close_conn(*id, mockcluster::CloseKind::Rst).await;
            }
            let cur_ref = &cur;
            let pool = cluster.wait_conns("pools full again after the restart", DEADLINE, |cs| pools_full(cur_ref, cs, &nobody)).await.unwrap_or_else(|e| machinery(&cluster, desc, &e));
            if pool.iter().any(|c| victims.contains(&c.id)) {
                machinery(&cluster, desc, "a reset connection is still listed as open");
            }
            if !confirm_pools(r, desc, &cur, &cluster, &run.session, &pool, &format!(" [after restart {step}]")).await {
                return false;
            }
            check_ports(r, desc, &cur, &cluster, session_log_start, &pool, local_ip, &format!(" [after restart {step}]"));
            r.counters.add("restarts", 1);
            let conns_before = open_ids(&cluster);
            let (keys2, stats2) = model::find_cell_keys(&cur, desc.keys_per_cell, 1_000_000);
            if stats2.cells_hit != stats2.cells_total {
                r.counters.add("clusters_with_unhit_cells", 1);
            }
            r.counters.add("cells_total_after_restarts", stats2.cells_total as u64);
            r.counters.add("cells_hit_after_restarts", stats2.cells_hit as u64);
            run.layout = Arc::new(cur.clone());
            run.pool_has = pool.iter().map(|c| (c.node, c.shard)).collect();
            run.phase = format!("restart{step}");
            run.phase_note = format!(" [after restart {step}: node {v} now {}]", new_shards.map(|(n, m)| format!("{n}/{m}")).unwrap_or_else(|| "unsharded".into()));
            let same_count = new_shards.map(|x| x.0) == Some(nr0);
            let pols = [Policy::Default, Policy::PreferDc { dc: cur.nodes[v].dc.clone(), failover: true }];
            // the tablet map names shards of the old shard count
            let ks_ok = move |ks: &KsCfg, _: &Policy| !ks.tablet_based || same_count;
            let n = run.sweep(&pols, &ks_ok, &keys2, last_generation, only, base_repeats, false).await;
            r.counters.add("requests_after_a_restart", n);
            if conns_before != open_ids(&cluster) {
                machinery(&cluster, desc, "the set of open connections changed while the requests after a restart ran");
            }
        }
        // put the mock back for the sessions that follow
        cluster.set_sharding(v, Some((nr0, msb0)));
    }

    // ---- history 2: the last node goes down (listener stopped, every connection reset). Once the client reports it
    // as not connected, the first attempt must go to a replica that is still up.
    if let (true, None, true, true) = (desc.down, &session_pref, layout.nodes.len() >= 2, wants_phase("down")) {
        let v = layout.nodes.len() - 1;
        let host = cluster.host_id(v);
        cluster.kill_node(v).await;
        let s2 = &run.session;
        if let Err(e) = poll_until("client reports the killed node as not connected", || s2.get_cluster_state().get_nodes_info().iter().find(|n| n.host_id == host).map(|n| !n.is_connected()).unwrap_or(false)).await {
            r.violation(
                "down:driver-still-reports-the-killed-node-connected",
                &format!("{}: node {v} stopped listening and every connection to it was reset, but Node::is_connected() stays true ({e})", desc.label()),
                json!({"desc": desc.to_json(), "only": {"phase": "down", "ks": "s1", "stmt": "insert", "policy": "default", "key": keys.first().map(|k| k.key).unwrap_or(0), "generation": last_generation}}),
            );
            return false;
        }
        r.counters.add("nodes_killed", 1);
        run.down.insert(v);
        run.pool_has.retain(|(n, _)| *n != v);
        run.phase = "down".into();
        run.phase_note = format!(" [node {v} is down]");
        let conns_before = open_ids(&cluster);
        let ks_ok = |_: &KsCfg, _: &Policy| true;
        // the plain statements twice: the random pick among the replicas has to hit the dead one now and then
        let n = run.sweep(&policies, &ks_ok, keys, last_generation, only, base_repeats.max(2), false).await;
        r.counters.add("requests_with_a_node_down", n);
        if conns_before != open_ids(&cluster) {
            machinery(&cluster, desc, "the set of open connections changed while the requests with a node down ran");
        }
        run.down.clear();
        cluster.start_listening(v).await.unwrap_or_else(|e| machinery(&cluster, desc, &e));
    }

    // ---- history 3: the last node is reported in another datacenter; after refresh_metadata() the driver has re-created
    // the node (new pool). Placement, preferred-DC narrowing and the tablets' per-DC views must follow.
    if let (true, None, true, true) = (desc.moved, &session_pref, layout.nodes.len() >= 2, wants_phase("moved")) {
        let v = layout.nodes.len() - 1;
        let mut cur: Layout = (**layout).clone();
        let old_dc = cur.nodes[v].dc.clone();
        let new_dc: String = if old_dc == "dc1" { "dc2".into() } else { "dc1".into() };
        let old_ids: BTreeSet<u64> = cluster.open_conns(Some(v)).iter().filter(|c| c.registered.is_empty()).map(|c| c.id).collect();
        cluster.set_location(v, &new_dc, &cur.nodes[v].rack);
        cur.nodes[v].dc = new_dc.clone();
        cur.ring.nodes[v].dc = Some(new_dc.clone());
        if !cur.dcs.contains(&new_dc) {
            cur.dcs.push(new_dc.clone());
        }
        run.session.refresh_metadata().await.unwrap_or_else(|e| machinery(&cluster, desc, &format!("refresh_metadata: {e}")));
        let seen_dc = run.session.get_cluster_state().get_nodes_info().iter().find(|n| n.host_id == cluster.host_id(v)).and_then(|n| n.datacenter.clone());
        if seen_dc.as_deref() != Some(new_dc.as_str()) {
            r.violation(
                "move:driver-state-stale",
                &format!("{}: the cluster now reports node {v} in datacenter {new_dc} (was {old_dc}); after refresh_metadata() returned Ok the driver's ClusterState still lists it in {seen_dc:?}", desc.label()),
                json!({"desc": desc.to_json(), "only": {"phase": "moved", "ks": "s1", "stmt": "insert", "policy": "default", "key": keys.first().map(|k| k.key).unwrap_or(0), "generation": last_generation}}),
            );
            cluster.set_location(v, &old_dc, &cur.nodes[v].rack);
            return false;
        }
        let cur_ref = &cur;
        let pool = cluster
            .wait_conns("pools full after the node was re-created", DEADLINE, |cs| pools_full(cur_ref, cs, &nobody).filter(|p| !p.iter().any(|c| old_ids.contains(&c.id))))
            .await
            .unwrap_or_else(|e| machinery(&cluster, desc, &e));
        if !confirm_pools(r, desc, &cur, &cluster, &run.session, &pool, " [after the move]").await {
            return false;
        }
        r.counters.add("nodes_moved_to_another_dc", 1);
        run.layout = Arc::new(cur.clone());
        run.pool_has = pool.iter().map(|c| (c.node, c.shard)).collect();
        run.phase = "moved".into();
        run.phase_note = format!(" [node {v} moved {old_dc} -> {new_dc}, metadata refreshed]");
        let conns_before = open_ids(&cluster);
        let pols = model::policies(&cur);
        let ks_ok = |_: &KsCfg, _: &Policy| true;
        let n = run.sweep(&pols, &ks_ok, keys, last_generation, only, 1, false).await;
        r.counters.add("requests_after_a_dc_move", n);
        if conns_before != open_ids(&cluster) {
            machinery(&cluster, desc, "the set of open connections changed while the requests after the move ran");
        }
        cluster.set_location(v, &old_dc, &cur.nodes[v].rack);
    }

    outcomes.extend(run.outcomes.iter().copied());
    // close this session's connections before the next session counts its own
    drop(run);
    cluster.wait_conns("previous session's connections closed", DEADLINE, |cs| cs.iter().all(|c| !c.open).then_some(())).await.unwrap_or_else(|e| machinery(&cluster, desc, &e));
    true
}

fn block_on_cluster(r: &Report, desc: &Desc, only: Option<Only>, ports_only: bool) {
    let rt = tokio::runtime::Builder::new_multi_thread().worker_threads(2).enable_all().build().unwrap_or_else(|e| vcore::machinery_error(&format!("tokio runtime: {e}")));
    rt.block_on(run_cluster(r, desc, only, ports_only));
    rt.shutdown_timeout(Duration::from_secs(5));
}

fn main() {
    vcore::quiet_panics();
    // `--ports-only`: the source-address / source-port sub-check alone, reported under C11 (checks.d/C11+ports-e2e.json)
    let ports_only = std::env::args().any(|a| a == "--ports-only");
    let r = if ports_only { Report::new("C11", "ports-e2e", "exploration", "E-MOCK") } else { Report::new("C12", "e2e", "exploration", "E-MOCK") };
    if let Err(e) = cqlref::murmur3::self_test() {
        vcore::machinery_error(&format!("cqlref murmur3 self-test: {e}"));
    }
    if let Some(e) = cqlref::placement::self_test().first() {
        vcore::machinery_error(&format!("cqlref placement self-test: {e}"));
    }
    if cqlref::shard::shard_of(-9219783007514621794, 4, 12) != 3 {
        vcore::machinery_error("cqlref shard_of fails its pinned vector");
    }
    if let Some(case) = r.replay_case() {
        let desc = Desc::from_json(&case["desc"]).unwrap_or_else(|| vcore::machinery_error("replay: bad desc"));
        let o = &case["only"];
        let only = Only {
            phase: o["phase"].as_str().unwrap_or("main").to_string(),
            kind: Kind::parse(o["stmt"].as_str().unwrap_or("insert")),
            ks: o["ks"].as_str().unwrap_or("s1").to_string(),
            policy: Policy::parse(o["policy"].as_str().unwrap_or("default")).unwrap_or(Policy::Default),
            key: o["key"].as_i64().unwrap_or(0) as i32,
            generation: o["generation"].as_u64().unwrap_or(0) as usize,
        };
        block_on_cluster(&r, &desc, Some(only), ports_only);
        r.finish_replay();
    }
    let thorough = r.tier().is_thorough();
    let mut descs = if ports_only { model::port_config_clusters(thorough, false) } else { model::enumerate(thorough) };
    if let Some(f) = r.args.extra_value("--max-clusters") {
        descs.truncate(f.parse().unwrap_or(usize::MAX));
    }
    if r.args.has_flag("--no-tablets") {
        descs.retain(|d| d.tablets == 0);
    }
    if r.args.has_flag("--one-dc") {
        descs.retain(|d| d.dc_sizes.len() == 1);
    }
    let total = descs.len();
    let jobs = r.args.jobs.clamp(1, 16);
    let r_ref = &r;
    vcore::par::for_each(jobs, 1, descs.into_iter(), |d| block_on_cluster(r_ref, &d, None, ports_only));

    r.note("clusters_enumerated", json!(total));
    if ports_only {
        r.set_rule("E-MOCK, sub-check of the C12 end-to-end leg run alone. A real Session against the mock cluster: layouts [1], [2], [2,1] x shard patterns {3 shards everywhere, 3/2/unsharded/1 mixed (thorough: 8 shards)} x PerShard(1) and PerShard(2) pools x {SessionBuilder::local_ip_address unset / set to an unused address of the mock's loopback block} x {shard_aware_local_port_range default 49152..=65535 / a 400-port custom window}; after the pools are full, and again after each of three restarts of a node with other sharding parameters (pool reset and refilled), on the mock's connection table: every pool connection comes from the configured local address; every connection accepted on the shard-aware port left from a port inside the configured range; no connection opened through the shard-aware port was thrown away again by the client (it is opened for one missing shard from a port drawn for it - a discarded one was bound to another shard, i.e. its port was not congruent to the shard it was opened for). evaluations = pool connections inspected; distinct_nontrivial = those accepted on the shard-aware port.");
        r.set_exhaustive(r.counters.get("clusters") == total as u64);
        r.assume("the mock binds a shard-aware-port connection to source port % shard count, as ScyllaDB does; which port of the range the driver draws is its thread RNG (membership oracle)");
        r.finish();
    }
    r.set_rule("E-MOCK. Clusters: node counts 1..4 (thorough ..6) x DC splits {one DC, every two-DC split with the larger half first, three DCs [1,1,1] and [2,1,1] (thorough three more)} x shard patterns {unsharded, 1, 2, 3 shards, two mixes giving every node another sharder incl. msb_ignore 0, unsharded contact point among sharded nodes (thorough: 8 shards and three more mixes)} x pool {PerShard(1), PerHost(1); a few clusters with PerShard(2) and PerHost(3)} x tablets {off, on (all-sharded clusters)} x vnodes per node {1,2,3} (thorough ..4), tokens jittered around an equal division, owners shuffled; plus NAT clusters (3 shards, thorough also 8) where the server binds a shard-aware-port connection to another shard than the one asked for; plus port-configuration clusters {local_ip_address set / unset} x {default / narrow custom shard_aware_local_port_range} with PerShard(1|2) pools - at every pools-full point every pool connection must come from the configured address, every shard-aware-port connection from a port inside the configured range, and none opened through the shard-aware port may have been discarded by the client. Inside every cluster: a session without location preference and one session per DC preferred at session level (quick: in the clusters with 2 vnodes or <= 2 nodes); keyspaces Simple RF 1,2,3, NTS {dc1:1,dc2:1}, {dc1:2,dc2:1,dc3:1}, {dc2:2}, {dc1:0,dc2:1} (+ tablet keyspace), all with a table `t`, x statement kinds {plain and LWT-marked through execute_unpaged, a SELECT through execute_single_page or execute_iter (alternating by key)} x policies {default, prefer each DC with / without failover, prefer dc1/r2 with / without failover | session-level preference with / without failover} x one key (thorough two) per cell x 2 repeats, cell = (segment of the token space: ring interval / wrap halves / tablet boundary refinement) x sharder configuration x owning shard; cell emptiness and size computed from the reference shard function, every cell of >= 2^50 tokens must be hit; keys found by walking 0,1,2,.. with the reference Murmur3; once per session every node forgets its prepared statements (UNPREPARED + re-send). Histories after the normal phase of the preference-less session, by vnode count: (2 vnodes) the last sharded node restarts three times with other sharding parameters (same shard count but another msb_ignore; another shard count; not sharded), its pool connections are reset and refilled, cell keys recomputed; (1 vnode, >= 2 nodes) the last node is killed and, once the client reports it not connected, every request is re-run with `reachable` = the other nodes; (3 vnodes, >= 2 nodes) the last node is reported in another datacenter, refresh_metadata(), pools re-confirmed, every request re-run against the new placement. Per request: node and server-side shard of the connection of the first EXECUTE carrying the request's serial vs. the reference replica list (minus down nodes, narrowed to the preferred DC when it holds a reachable replica), shard_of(token) of that node when the pool holds a connection bound to it, the tablet's (node, shard) for the tablet table after the payload was delivered and the client lists it (three map generations: initial, every tablet migrated, the first two tablets merged into one), request_coordinator() (host id, shard, address) vs. the connection that served the answer; per session and key ClusterState::compute_token and get_token_endpoints vs. the reference. distinct_nontrivial = requests whose permitted first targets are a strict subset of the nodes.");
    let full = r.counters.get("cells_hit") == r.counters.get("cells_total") && r.counters.get("clusters") == total as u64;
    r.set_exhaustive(full);
    r.assume("outside the down phase all nodes are up and connected (checked: the set of open connections is the same before and after every phase); client-internal scheduling and the thread RNG that picks among replicas are not controlled: the oracle is membership in the reference set, valid for every pick");
    r.assume("an attempt aimed at a node without any connection produces no frame: with a node down the oracle sees the first attempt that reached the wire");
    r.assume("token boundaries themselves (token == ring token) are not reachable by key search; C04 covers them at the locator");
    r.assume("LWT-marked statements are held to the same membership oracle (the property does not single them out); rack preference is held to the datacenter rule only");
    r.sample(json!({"example_cluster": model::enumerate(false).get(200).map(|d| d.to_json())}));
    r.finish();
}
