//! C07 leg `control` (E-MOCK): the single-connection pager (`Connection::execute_iter`, used by the control
//! connection) through the driver's own metadata fetch. The mock serves `system.peers`, `system.local` and the
//! `system_schema.*` tables in ENUMERATED page splits (empty pages anywhere, at most two in a row); every split of
//! every table is served at least once per cluster size; one case = one `Session::refresh_metadata()`.
//! Oracle: the published ClusterState lists exactly the scripted nodes (host id + address), keyspaces, tables and
//! columns, none lost, none foreign; for each table the page requests seen by the mock carry no state, then
//! `mockpg:1`, `mockpg:2`, .. exactly once each (the state returned with the previous page). With one fault on a page
//! of a table (non-retryable error / response parked until the fetch is seen waiting / connection reset in the middle
//! of the frame) the refresh may fail, but what is published stays a correct listing and the next fault-free
//! refresh succeeds and satisfies the full oracle.
use h_mock::c07_pager::splits;
use mockcluster::wire::{ErrorBody, Opcode, Request, Response};
use mockcluster::{CloseKind, KeyspaceSpec, LogEntry, MockCluster, NodeSpec, Reply, TableSpec, systables};
use scylla::client::session::Session;
use scylla::client::session_builder::SessionBuilder;
use serde_json::{Value, json};
use std::collections::{BTreeMap, BTreeSet, HashSet};
use std::sync::atomic::{AtomicUsize, Ordering};
use std::sync::{Arc, Mutex};
use std::time::Duration;
use vcore::Report;

/// page requests that arrived with a zero-length paging state (vacuity guard for the empty-state cases)
static EMPTY_STATES_SEEN: std::sync::atomic::AtomicU64 = std::sync::atomic::AtomicU64::new(0);
const CONST_STATE: &[u8] = &[0xC5, 0xC5, 0xC5, 0xC5];
const DEADLINE: Duration = Duration::from_secs(20);
/// (table, rows as a function of the number of peers)
const TABLES: [&str; 7] = ["system.peers", "system.local", "system_schema.keyspaces", "system_schema.tables", "system_schema.columns", "system_schema.views", "system_schema.types"];

fn rows_of(table: &str, peers: usize) -> usize {
    match table {
        "system.peers" => peers,
        "system.local" => 1,
        "system_schema.keyspaces" => 2,
        "system_schema.tables" => 2,
        "system_schema.columns" => 4,
        _ => 0,
    }
}

#[derive(Clone, Debug)]
struct CcCase {
    peers: usize,
    splits: BTreeMap<String, Vec<usize>>,
    /// (table, page, kind) kind in invalid | delay | reset
    fault: Option<(String, usize, String)>,
    /// (table, k): the paging state returned with page k-1 of that table (asking for page k) is ZERO-LENGTH
    empty: Option<(String, usize)>,
    /// table whose every paging state is the SAME bytes (the server keeps the position itself)
    constant: Option<String>,
    /// (table, client-side metadata request timeout ms, delay ms): every page of that table is answered `delay` after
    /// it was asked for - well within the timeout - while the whole iteration takes longer than one timeout
    slow: Option<(String, u64, u64)>,
}
impl CcCase {
    fn json(&self) -> Value {
        json!({"leg": "control", "peers": self.peers, "splits": self.splits, "fault": self.fault.as_ref().map(|(t, p, k)| json!([t, p, k])), "empty_state": self.empty.as_ref().map(|(t, k)| json!([t, k])), "constant_state": self.constant, "slow": self.slow.as_ref().map(|(t, a, b)| json!([t, a, b]))})
    }
    fn from_json(v: &Value) -> Option<CcCase> {
        let splits = v["splits"].as_object()?.iter().map(|(k, s)| (k.clone(), s.as_array().map(|a| a.iter().map(|x| x.as_u64().unwrap_or(0) as usize).collect()).unwrap_or_default())).collect();
        let fault = match &v["fault"] {
            Value::Array(a) if a.len() == 3 => Some((a[0].as_str()?.to_string(), a[1].as_u64()? as usize, a[2].as_str()?.to_string())),
            _ => None,
        };
        let empty = match &v["empty_state"] {
            Value::Array(a) if a.len() == 2 => Some((a[0].as_str()?.to_string(), a[1].as_u64()? as usize)),
            _ => None,
        };
        Some(CcCase { peers: v["peers"].as_u64()? as usize, splits, fault, empty, constant: v["constant_state"].as_str().map(|s| s.to_string()), slow: match &v["slow"] {
            Value::Array(a) if a.len() == 3 => Some((a[0].as_str()?.to_string(), a[1].as_u64()?, a[2].as_u64()?)),
            _ => None,
        } })
    }
}

#[derive(Default)]
struct Shared {
    armed: Option<(String, usize, String)>,
    empty: Option<(String, usize)>,
    constant: Option<String>,
    /// every answer to a page request of this table is parked (released by the case after its delay)
    slow_table: Option<String>,
    /// per table: next page not yet answered (for the constant paging state)
    cursors: BTreeMap<String, usize>,
    fired: usize,
    counts: BTreeMap<String, usize>,
    cap: usize,
    capped: bool,
    held: HashSet<u64>,
}

struct World {
    cluster: MockCluster,
    session: Arc<Session>,
    shared: Arc<Mutex<Shared>>,
    peers: usize,
    cases: usize,
    /// client-side metadata request timeout the session was built with (ms)
    timeout_ms: Option<u64>,
}

fn table_of(stmt: Option<&str>) -> Option<String> {
    let sel = systables::parse_select(stmt?)?;
    Some(format!("{}.{}", sel.keyspace, sel.table))
}
fn page_of_state(ps: &Option<Vec<u8>>, empty_k: Option<usize>) -> Option<usize> {
    match ps {
        None => Some(0),
        Some(b) if b.is_empty() => empty_k,
        Some(b) => std::str::from_utf8(b).ok()?.strip_prefix("mockpg:")?.parse().ok(),
    }
}

impl World {
    async fn setup(peers: usize, first: &CcCase) -> Result<World, String> {
        let mut b = MockCluster::builder();
        for i in 0..=peers {
            let t = -4_000_000_000_000_000_000i64 + (i as i64) * 1_500_000_000_000_000_000;
            b = b.node(NodeSpec::new("dc1", &format!("r{i}"), vec![t, t + 500_000_000_000_000_000]));
        }
        b = b.keyspace(KeyspaceSpec::simple("ks1", 1).table(TableSpec::new("t1").pk("a", "int").col("b", "text")));
        b = b.keyspace(KeyspaceSpec::simple("ks2", 1).table(TableSpec::new("u").pk("c", "int").col("d", "int")));
        let cluster = b.build().await?;
        for (t, s) in &first.splits {
            cluster.set_system_page_splits(t, Some(s.clone()));
        }
        let shared: Arc<Mutex<Shared>> = Arc::new(Mutex::new(Shared { cap: 1_000_000, empty: first.empty.clone(), constant: first.constant.clone(), ..Default::default() }));
        let sh = shared.clone();
        cluster.handle(move |ctx| {
            let table = table_of(ctx.statement.as_deref())?;
            let params = ctx.params()?;
            let mut g = sh.lock().unwrap();
            // zero-length paging state: for one table the state that asks for page k is the empty byte string
            let empty_k: Option<usize> = g.empty.as_ref().filter(|(t, _)| *t == table).map(|(_, k)| *k);
            let is_const = g.constant.as_deref() == Some(table.as_str());
            let const_page: Option<usize> = if is_const && params.paging_state.as_deref() == Some(CONST_STATE) { Some(g.cursors.get(&table).copied().unwrap_or(1)) } else { None };
            let page = const_page.or_else(|| page_of_state(&params.paging_state, empty_k));
            if params.paging_state.as_ref().map(|b| b.is_empty()).unwrap_or(false) {
                EMPTY_STATES_SEEN.fetch_add(1, Ordering::Relaxed);
            }
            let n = g.counts.entry(table.clone()).or_insert(0);
            *n += 1;
            if *n > g.cap {
                g.capped = true;
                return Some(Reply::error(ErrorBody::invalid("c07cc: request cap reached (runaway pager)")));
            }
            // the built-in answer, with `mockpg:k` <-> zero-length translated in both directions
            let sh2 = sh.clone();
            let table2 = table.clone();
            let serve = move |ctx: &mockcluster::ReqCtx| -> Option<Reply> {
                if empty_k.is_none() && !is_const {
                    return None;
                }
                let k = empty_k.unwrap_or(usize::MAX);
                let mut req = ctx.request.clone();
                if let Request::Execute { params, .. } | Request::Query { params, .. } = &mut req {
                    if params.paging_state.as_ref().map(|b| b.is_empty()).unwrap_or(false) && empty_k.is_some() {
                        params.paging_state = Some(format!("mockpg:{k}").into_bytes());
                    }
                    if let Some(p) = const_page {
                        params.paging_state = Some(format!("mockpg:{p}").into_bytes());
                    }
                }
                let ctx2 = mockcluster::ReqCtx {
                    cluster: ctx.cluster,
                    node: ctx.node,
                    conn: ctx.conn,
                    shard: ctx.shard,
                    stream: ctx.stream,
                    request: &req,
                    entry: ctx.entry,
                    keyspace: ctx.keyspace.clone(),
                    statement: ctx.statement.clone(),
                    metadata_id: ctx.metadata_id,
                    lwt_mark: ctx.lwt_mark,
                };
                let mut reply = ctx.cluster.builtin(&ctx2);
                if let Reply::Frame(env) = &mut reply {
                    if let Response::Rows(r) = &mut env.response {
                        if empty_k.is_some() && r.metadata.paging_state.as_deref() == Some(format!("mockpg:{k}").as_bytes()) {
                            r.metadata.paging_state = Some(Vec::new());
                        }
                        if is_const {
                            // this page is answered: the position moves on; every state handed out is the same bytes
                            sh2.lock().unwrap().cursors.insert(table2.clone(), page.unwrap_or(0) + 1);
                            if r.metadata.paging_state.is_some() {
                                r.metadata.paging_state = Some(CONST_STATE.to_vec());
                            }
                        }
                    }
                }
                Some(reply)
            };
            if g.slow_table.as_deref() == Some(table.as_str()) && ctx.opcode() == Opcode::Execute {
                g.held.insert(ctx.entry.seq);
            }
            let hit = matches!((&g.armed, page), (Some((t, p, _)), Some(pg)) if *t == table && *p == pg) && ctx.opcode() == Opcode::Execute;
            if !hit {
                drop(g);
                return serve(ctx);
            }
            let (_, _, kind) = g.armed.take().unwrap();
            g.fired += 1;
            match kind.as_str() {
                "invalid" => Some(Reply::error(ErrorBody::invalid("c07cc: scripted non-retryable error"))),
                // as if the node had evicted the statement: the connection re-prepares and re-executes the same page
                "unprepared" => Some(Reply::error(ErrorBody::unprepared(ctx.request.prepared_id().unwrap_or(&[])))),
                "delay" => {
                    g.held.insert(ctx.entry.seq);
                    drop(g);
                    serve(ctx)
                }
                "reset" => {
                    drop(g);
                    match serve(ctx).unwrap_or_else(|| ctx.cluster.builtin(ctx)) {
                        Reply::Frame(env) => {
                            let len = env.encode_frame(ctx.stream).len();
                            let body = len - mockcluster::wire::HEADER_LEN;
                            Some(Reply::CutFrame { env, bytes: mockcluster::wire::HEADER_LEN + body / 2, then: CloseKind::Rst })
                        }
                        other => Some(other),
                    }
                }
                _ => None,
            }
        });
        let sh = shared.clone();
        cluster.hold(move |a| a.request_entry().map(|e| sh.lock().unwrap().held.contains(&e.seq)).unwrap_or(false));
        let timeout_ms = first.slow.as_ref().map(|s| s.1);
        let mut sb = SessionBuilder::new().known_node(cluster.contact_point(0)).cluster_metadata_refresh_interval(Duration::from_secs(3600));
        if let Some(ms) = timeout_ms {
            sb = sb.metadata_request_clientside_timeout(Duration::from_millis(ms));
        }
        let session = sb
            .build()
            .await
            .map_err(|e| format!("session did not come up ({peers} peers, splits {:?}): {e}", first.splits))?;
        Ok(World { cluster, session: Arc::new(session), shared, peers, cases: 0, timeout_ms })
    }

    async fn teardown(self) {
        self.cluster.shutdown().await;
        drop(self.session);
    }

    fn nodes(&self) -> (Vec<(uuid::Uuid, std::net::IpAddr)>, Vec<(uuid::Uuid, std::net::IpAddr)>) {
        let st = self.session.get_cluster_state();
        let mut got: Vec<(uuid::Uuid, std::net::IpAddr)> = st.get_nodes_info().iter().map(|n| (n.host_id, n.address.ip())).collect();
        got.sort();
        let mut want: Vec<(uuid::Uuid, std::net::IpAddr)> = self.cluster.node_views().iter().map(|v| (v.host_id, std::net::IpAddr::V4(v.ip))).collect();
        want.sort();
        (got, want)
    }

    /// What the published state must list, from the mock's configuration.
    fn check_state(&self) -> Vec<(String, String)> {
        let mut out = Vec::new();
        let st = self.session.get_cluster_state();
        let mut got: Vec<(uuid::Uuid, std::net::IpAddr)> = st.get_nodes_info().iter().map(|n| (n.host_id, n.address.ip())).collect();
        got.sort();
        let mut want: Vec<(uuid::Uuid, std::net::IpAddr)> = self.cluster.node_views().iter().map(|v| (v.host_id, std::net::IpAddr::V4(v.ip))).collect();
        want.sort();
        if got != want {
            let lost = want.iter().filter(|w| !got.contains(w)).count();
            let key = if got.len() > want.len() || got.iter().any(|g| !want.contains(g)) { "control:nodes:foreign-or-duplicate" } else { "control:nodes:lost" };
            out.push((key.to_string(), format!("published cluster state lists {} node(s) {:?}; the server scripted {} ({} missing): {:?}", got.len(), got, want.len(), lost, want)));
        }
        let want_schema: BTreeMap<&str, BTreeMap<&str, BTreeSet<&str>>> = BTreeMap::from([("ks1", BTreeMap::from([("t1", BTreeSet::from(["a", "b"]))])), ("ks2", BTreeMap::from([("u", BTreeSet::from(["c", "d"]))]))]);
        let got_schema: BTreeMap<String, BTreeMap<String, BTreeSet<String>>> =
            st.keyspaces_iter().map(|(k, ks)| (k.to_string(), ks.tables.iter().map(|(t, tb)| (t.clone(), tb.columns.keys().cloned().collect())).collect())).collect();
        let want_owned: BTreeMap<String, BTreeMap<String, BTreeSet<String>>> =
            want_schema.iter().map(|(k, ts)| (k.to_string(), ts.iter().map(|(t, cs)| (t.to_string(), cs.iter().map(|c| c.to_string()).collect())).collect())).collect();
        if got_schema != want_owned {
            out.push(("control:schema:mismatch".to_string(), format!("published schema {got_schema:?}; the server scripted {want_owned:?}")));
        }
        out
    }

    /// `again`: (table, page) whose request is expected twice in a row (answered UNPREPARED, re-executed)
    fn check_frames(&self, from: u64, case: &CcCase, again: Option<(&str, usize)>) -> Vec<(String, String)> {
        let mut per: BTreeMap<String, Vec<Option<usize>>> = BTreeMap::new();
        for e in self.cluster.log_since(from) {
            let Some(f) = e.frame() else { continue };
            if f.opcode != Opcode::Execute {
                continue;
            }
            let Some(t) = table_of(f.statement.as_deref()) else { continue };
            let Some(p) = f.request.params() else { continue };
            let empty_k = case.empty.as_ref().filter(|(et, _)| *et == t).map(|(_, k)| *k);
            let v = per.entry(t.clone()).or_default();
            if case.constant.as_deref() == Some(t.as_str()) && p.paging_state.as_deref() == Some(CONST_STATE) {
                // identical bytes on every request: the i-th request with them asks for page i
                let n = v.iter().filter(|x| x.map(|p| p >= 1).unwrap_or(false)).count();
                v.push(Some(n + 1));
            } else {
                v.push(page_of_state(&p.paging_state, empty_k));
            }
        }
        let mut out = Vec::new();
        for t in TABLES {
            let pages = case.splits.get(t).map(|s| s.len()).unwrap_or(1);
            let mut want: Vec<Option<usize>> = (0..pages).map(Some).collect();
            if let Some((at, ap)) = again {
                if at == t && ap < pages {
                    want.insert(ap, Some(ap));
                }
            }
            let got = per.get(t).cloned().unwrap_or_default();
            if got != want {
                let key = if got.first().map(|p| *p != Some(0)).unwrap_or(false) { "control:frames:first-request-has-state" } else { "control:frames:wrong-paging-state" };
                out.push((key.to_string(), format!("{t} served in pages {:?}: page requests by page index (from their paging states) {got:?}, required {want:?} (request i carries the state returned with page i-1, the first none)", case.splits.get(t))));
            }
        }
        out
    }

    async fn refresh(&self, what: &str) -> Result<Result<(), String>, String> {
        let s = self.session.clone();
        let h = tokio::spawn(async move { s.refresh_metadata().await.map_err(|e| e.to_string()) });
        match tokio::time::timeout(DEADLINE, h).await {
            Err(_) => Err(format!("{what}: refresh_metadata did not return within {DEADLINE:?}")),
            Ok(Err(e)) => Ok(Err(format!("refresh task: {e}"))),
            Ok(Ok(r)) => Ok(r),
        }
    }

    /// Returns complaints (key, text) and whether the faulted refresh returned Ok.
    async fn run_case(&mut self, case: &CcCase, already_fetched: bool) -> Result<(Vec<(String, String)>, String), String> {
        self.cases += 1;
        for (t, s) in &case.splits {
            self.cluster.set_system_page_splits(t, Some(s.clone()));
        }
        let total_pages: usize = case.splits.values().map(|s| s.len()).sum();
        {
            let mut g = self.shared.lock().unwrap();
            g.armed = case.fault.clone();
            g.empty = case.empty.clone();
            g.constant = case.constant.clone();
            g.cursors.clear();
            g.fired = 0;
            g.counts.clear();
            g.cap = 4 * total_pages + 16;
            g.capped = false;
        }
        let mut complaints = Vec::new();
        let mut outcome = String::from("ok");
        let mut from = self.cluster.log_len();
        let _ = already_fetched;
        if let Some((t, timeout_ms, delay_ms)) = &case.slow {
            // Every page of `t` is answered `delay` (wall clock) after it was asked for: each page well within the
            // request timeout, the iteration as a whole longer than one timeout. No failure is scripted, so the refresh
            // must succeed and publish everything. (The only place of this check where wall-clock time is part of the
            // scenario: margin per page = timeout - delay.)
            self.shared.lock().unwrap().slow_table = Some(t.clone());
            let s = self.session.clone();
            let mut h = tokio::spawn(async move { s.refresh_metadata().await.map_err(|e| e.to_string()) });
            let t0 = std::time::Instant::now();
            let mut released = 0usize;
            let res = loop {
                tokio::select! {
                    r = &mut h => break r,
                    a = self.cluster.wait_held("a parked page answer of the slow table", |a| !a.is_accept()) => {
                        let Ok(a) = a else { continue };
                        tokio::time::sleep(Duration::from_millis(*delay_ms)).await;
                        if let Some(e) = a.request_entry() {
                            self.shared.lock().unwrap().held.remove(&e.seq);
                        }
                        self.cluster.release(a.id);
                        released += 1;
                    }
                }
                if t0.elapsed() > DEADLINE * 2 {
                    h.abort();
                    complaints.push(("control:liveness:refresh-did-not-return".to_string(), format!("slow pages of {t}: refresh_metadata did not return")));
                    return Ok((complaints, "hang".into()));
                }
            };
            {
                let mut g = self.shared.lock().unwrap();
                g.slow_table = None;
                g.held.clear();
            }
            self.cluster.release_all();
            let pages = case.splits[t].len();
            match res {
                Err(e) => return Err(format!("refresh task: {e}")),
                Ok(Err(e)) => complaints.push((
                    "control:unexpected-error:slow-pages".to_string(),
                    format!("{t} in {pages} pages, each answered {delay_ms} ms after its request (request timeout {timeout_ms} ms, {released} pages released, {} ms in total): no failure was scripted, yet the refresh failed: {e}", t0.elapsed().as_millis()),
                )),
                Ok(Ok(())) => {}
            }
            for (k, tx) in self.check_state() {
                complaints.push((format!("{k}:slow-pages"), format!("{tx} [{t} in {pages} pages, each answered {delay_ms} ms after its request, request timeout {timeout_ms} ms]")));
            }
            if complaints.is_empty() {
                complaints.extend(self.check_frames(from, case, None));
            }
            outcome = format!("slow-pages:{}", if complaints.is_empty() { "ok" } else { "violation" });
            if !complaints.is_empty() {
                // what follows a failed iteration (re-fetches, a producer still running) is not judged
                return Ok((complaints, outcome));
            }
            self.shared.lock().unwrap().counts.clear();
            from = self.cluster.log_len();
        }
        if let Some((t, p, kind)) = &case.fault {
            let s = self.session.clone();
            let h = tokio::spawn(async move { s.refresh_metadata().await.map_err(|e| e.to_string()) });
            if kind == "delay" {
                let held = self.cluster.wait_held(&format!("the parked answer to page {p} of {t}"), |a| !a.is_accept()).await;
                match held {
                    Ok(a) => {
                        // the fetch is waiting for this page: it must not complete before the page is released
                        let waited = h.is_finished();
                        if waited {
                            complaints.push(("control:refresh-finished-before-page-arrived".to_string(), format!("refresh_metadata returned while page {p} of {t} was still parked at the server")));
                        }
                        self.shared.lock().unwrap().held.clear();
                        self.cluster.release(a.id);
                    }
                    Err(e) => return Err(e),
                }
            }
            let r = match tokio::time::timeout(DEADLINE, h).await {
                Err(_) => {
                    complaints.push(("control:liveness:refresh-did-not-return".to_string(), format!("refresh_metadata did not return within {DEADLINE:?} after a {kind} on page {p} of {t}")));
                    return Ok((complaints, "hang".into()));
                }
                Ok(Err(e)) => return Err(format!("refresh task: {e}")),
                Ok(Ok(r)) => r,
            };
            self.shared.lock().unwrap().held.clear();
            self.cluster.release_all();
            if self.shared.lock().unwrap().fired != 1 {
                return Err(format!("scripted fault {:?} did not fire (splits {:?})", case.fault, case.splits));
            }
            outcome = match &r {
                Ok(()) => format!("{kind}:refresh-ok"),
                Err(_) => format!("{kind}:refresh-err"),
            };
            // What is published after the faulted refresh. The pager's part of the contract (C07): rows of the pages
            // before the failure are delivered, nothing foreign, and the failure reaches the pager's consumer. What
            // that consumer (the metadata reader) does with the error is not C07: it either fails the refresh (the
            // old, complete listing stays) or - for system.peers / system.local - logs it and publishes what it got.
            let full = self.check_state();
            if !full.is_empty() {
                let (got, want) = self.nodes();
                let foreign: Vec<_> = got.iter().filter(|g| !want.contains(g)).collect();
                let dup = got.len() != got.iter().collect::<BTreeSet<_>>().len();
                // rows the pager delivered before the failure: the local node and the peers of earlier pages
                // (the control connection of a world that saw no reset is on node 0, whose peers are nodes 1..)
                let must: Vec<(uuid::Uuid, std::net::IpAddr)> = if kind == "invalid" && t == "system.peers" && r.is_ok() {
                    let before: usize = case.splits[t][..*p].iter().sum();
                    let views = self.cluster.node_views();
                    (0..=before).map(|i| (views[i].host_id, std::net::IpAddr::V4(views[i].ip))).collect()
                } else {
                    Vec::new()
                };
                let lost: Vec<_> = must.iter().filter(|m| !got.contains(m)).collect();
                if kind == "delay" || kind == "unprepared" || r.is_err() {
                    // nothing failed (delay) / the refresh failed as a whole: the complete listing must stand
                    for (k, t) in full {
                        complaints.push((format!("{k}:after-{kind}"), t));
                    }
                } else if !foreign.is_empty() || dup {
                    complaints.push(("control:nodes:foreign-or-duplicate:after-fault".into(), format!("after a {kind} on page {p} of {t} the published nodes {got:?} contain entries the server never scripted ({want:?})")));
                } else if !lost.is_empty() {
                    complaints.push(("control:nodes:rows-of-earlier-pages-lost".into(), format!("after a {kind} on page {p} of {t} (split {:?}) the published nodes {got:?} miss {lost:?}, which were delivered in pages before the failure", case.splits[t])));
                } else {
                    outcome.push_str(":partial-listing-published");
                }
            }
            if kind == "unprepared" {
                // a transparent re-execute: the faulted refresh itself must show the exact request sequence, with
                // the request for page p sent twice with the same state
                if r.is_err() {
                    complaints.push(("control:refresh-failed:after-unprepared".to_string(), format!("UNPREPARED on page {p} of {t} must be handled by re-preparing; the refresh failed: {:?}", r)));
                }
                complaints.extend(self.check_frames(from, case, Some((t.as_str(), *p))));
            }
            self.shared.lock().unwrap().counts.clear();
            from = self.cluster.log_len();
        }
        // after a connection reset the control connection is re-established in the background: the follow-up refresh
        // may be asked again until the liveness deadline; otherwise one fault-free refresh must succeed
        let after_reset = case.fault.as_ref().map(|f| f.2 == "reset").unwrap_or(false);
        let t0 = std::time::Instant::now();
        loop {
            match self.refresh("fault-free refresh").await {
                Err(e) => {
                    complaints.push(("control:liveness:refresh-did-not-return".to_string(), e));
                    return Ok((complaints, "hang".into()));
                }
                Ok(Err(_)) if after_reset && t0.elapsed() < DEADLINE => {
                    if !outcome.ends_with(":follow-up-refresh-retried") {
                        outcome.push_str(":follow-up-refresh-retried");
                    }
                    self.shared.lock().unwrap().counts.clear();
                    tokio::task::yield_now().await;
                }
                Ok(Err(e)) => {
                    complaints.push(("control:refresh-failed".to_string(), format!("a fault-free metadata refresh failed: {e}")));
                    break;
                }
                Ok(Ok(())) => break,
            }
        }
        complaints.extend(self.check_state());
        // after a connection reset the driver may fetch more than once (new control connection); the exact frame
        // sequence is judged on refreshes that follow no fault
        if case.fault.is_none() {
            complaints.extend(self.check_frames(from, case, None));
        }
        if self.shared.lock().unwrap().capped && complaints.is_empty() {
            return Err("request cap reached although every oracle held".into());
        }
        Ok((complaints, outcome))
    }
}

fn gen_cases(max_peers: usize, faults: bool, thorough: bool) -> Vec<CcCase> {
    let mut v = Vec::new();
    for peers in 0..=max_peers {
        let lists: Vec<(&str, Vec<Vec<usize>>)> = TABLES.iter().map(|t| (*t, splits(rows_of(t, peers)))).collect();
        let n = lists.iter().map(|(_, l)| l.len()).max().unwrap();
        for i in 0..n {
            // every table walks through ALL its splits (independently; the tables are read by independent pagers)
            let sp: BTreeMap<String, Vec<usize>> = lists.iter().map(|(t, l)| (t.to_string(), l[i % l.len()].clone())).collect();
            v.push(CcCase { peers, splits: sp.clone(), fault: None, empty: None, constant: None, slow: None });
            // the same refresh with a ZERO-LENGTH paging state at one position (rotating) of system.peers, and on the
            // 2-node cluster of system_schema.columns
            for t in ["system.peers", "system_schema.columns"] {
                let pages = sp[t].len();
                let list_len = lists.iter().find(|(x, _)| *x == t).unwrap().1.len();
                if pages >= 2 && i < list_len && (t == "system.peers" || peers == 1) {
                    v.push(CcCase { peers, splits: sp.clone(), fault: None, empty: Some((t.to_string(), 1 + i % (pages - 1))), constant: None, slow: None });
                    v.push(CcCase { peers, splits: sp.clone(), fault: None, empty: None, constant: Some(t.to_string()), slow: None });
                }
            }
        }
        if faults {
            // one fault on every page of the splits of system.peers: quick the 40 simplest splits per cluster size,
            // thorough every split up to 4 peers (40 simplest for 5); thorough also system.local and
            // system_schema.columns (100 simplest splits) on the 2-node cluster
            let mut fault_tables: Vec<(&str, usize)> = vec![("system.peers", if thorough && peers <= 4 { usize::MAX } else { 40 })];
            if thorough && peers == 1 {
                fault_tables.push(("system.local", usize::MAX));
                fault_tables.push(("system_schema.columns", 100));
            }
            for (ft, cap) in fault_tables {
                let l = &lists.iter().find(|(t, _)| *t == ft).unwrap().1;
                for (i, s) in l.iter().take(cap).enumerate() {
                    for p in 0..s.len() {
                        for kind in ["invalid", "delay", "reset", "unprepared"] {
                            let mut sp: BTreeMap<String, Vec<usize>> = lists.iter().map(|(t, l)| (t.to_string(), l[i % l.len()].clone())).collect();
                            sp.insert(ft.to_string(), s.clone());
                            v.push(CcCase { peers, splits: sp, fault: Some((ft.to_string(), p, kind.to_string())), empty: None, constant: None, slow: None });
                        }
                    }
                }
            }
        }
    }
    // a handful of slow iterations (wall clock): timeout 1500 ms, every page 600 ms -> 900 ms margin per page, while
    // 4 / 5 pages take 2400 / 3000 ms in total
    let one = |peers: usize, table: &str, split: Vec<usize>| -> CcCase {
        let mut sp: BTreeMap<String, Vec<usize>> = TABLES.iter().map(|t| (t.to_string(), vec![rows_of(t, peers)])).collect();
        sp.insert(table.to_string(), split);
        CcCase { peers, splits: sp, fault: None, empty: None, constant: None, slow: Some((table.to_string(), 1500, 600)) }
    };
    if max_peers >= 4 {
        v.push(one(4, "system.peers", vec![1, 1, 1, 1]));
        v.push(one(3, "system.peers", vec![1, 0, 1, 0, 1]));
        v.push(one(1, "system_schema.columns", vec![1, 1, 1, 1]));
        if thorough {
            v.push(one(4, "system.peers", vec![0, 2, 0, 1, 1, 0]));
            v.push(one(2, "system.peers", vec![0, 1, 0, 1]));
        }
    }
    v
}

struct Out {
    complaints: Vec<(String, String, Value)>,
    outcomes: BTreeMap<String, u64>,
    done: usize,
    worlds: usize,
    machinery: Option<String>,
    pages_served: u64,
}

async fn worker(cases: Arc<Vec<CcCase>>, next: Arc<AtomicUsize>, out: Arc<Mutex<Out>>) {
    let mut world: Option<World> = None;
    loop {
        {
            let g = out.lock().unwrap();
            if g.machinery.is_some() || g.complaints.len() >= 6 || g.complaints.iter().any(|c| c.0.contains("liveness") || c.0.contains("runaway")) {
                break;
            }
        }
        // cases are handed out in blocks so that one worker stays on one cluster size
        let i = next.fetch_add(1, Ordering::SeqCst);
        if i >= cases.len() {
            break;
        }
        let case = &cases[i];
        let mut fresh = false;
        if world.as_ref().map(|w| w.peers != case.peers || w.cases >= 300 || w.timeout_ms != case.slow.as_ref().map(|s| s.1)).unwrap_or(true) {
            if let Some(w) = world.take() {
                w.teardown().await;
            }
            match World::setup(case.peers, case).await {
                Ok(w) => {
                    out.lock().unwrap().worlds += 1;
                    world = Some(w);
                    fresh = true;
                }
                Err(e) => {
                    // the very first fetch of a session runs through the same pager: a session that cannot come up
                    // on a fault-free split is a violation of the same property
                    let mut g = out.lock().unwrap();
                    if e.starts_with("session did not come up") {
                        g.complaints.push(("control:session-did-not-come-up".into(), e, case.json()));
                    } else {
                        g.machinery.get_or_insert(e);
                    }
                    break;
                }
            }
        }
        let w = world.as_mut().unwrap();
        let mut pre = Vec::new();
        if fresh {
            // the session's initial fetch was served with this case's splits: judge what it published
            for (k, t) in w.check_state() {
                pre.push((format!("{k}:initial-fetch"), t));
            }
        }
        match w.run_case(case, fresh).await {
            Ok((c, outcome)) => {
                let broken = !c.is_empty() || !pre.is_empty();
                {
                    let mut g = out.lock().unwrap();
                    for (k, t) in pre.into_iter().chain(c) {
                        g.complaints.push((k, t, case.json()));
                    }
                    *g.outcomes.entry(outcome).or_insert(0) += 1;
                    g.done += 1;
                    g.pages_served += case.splits.values().map(|s| s.len() as u64).sum::<u64>();
                }
                if broken || case.fault.as_ref().map(|f| f.2 == "reset").unwrap_or(false) {
                    if let Some(w) = world.take() {
                        w.teardown().await;
                    }
                }
            }
            Err(e) => {
                let dump = w.cluster.dump_log();
                let tail: Vec<&str> = dump.lines().rev().take(25).collect();
                out.lock().unwrap().machinery.get_or_insert(format!("case {}: {e}\nlog tail (newest first):\n{}", case.json(), tail.join("\n")));
                break;
            }
        }
    }
    if let Some(w) = world.take() {
        w.teardown().await;
    }
}

fn describe_entry(e: &LogEntry) -> String {
    e.describe()
}

fn main() {
    let r = Report::new("C07", "control", "fault_enumeration", "E-MOCK");
    let jobs = r.args.jobs.min(16);
    let rt = tokio::runtime::Builder::new_multi_thread().worker_threads(jobs.max(2)).enable_all().build().unwrap();
    if let Some(case) = r.replay_case() {
        let Some(case) = CcCase::from_json(&case) else { vcore::machinery_error("replay artefact does not hold a C07 control case") };
        let res = rt.block_on(async {
            let mut w = World::setup(case.peers, &case).await?;
            let mut c: Vec<(String, String)> = w.check_state().into_iter().map(|(k, t)| (format!("{k}:initial-fetch"), t)).collect();
            let (c2, outcome) = w.run_case(&case, true).await?;
            c.extend(c2);
            println!("case {} -> {outcome}", case.json());
            if std::env::var("C07_DUMP").is_ok() {
                for e in w.cluster.log() {
                    println!("{}", describe_entry(&e));
                }
            }
            w.teardown().await;
            Ok::<_, String>(c)
        });
        match res {
            Ok(c) => {
                for (k, t) in c {
                    r.violation(&k, &t, case.json());
                }
            }
            Err(e) if e.starts_with("session did not come up") => r.violation("control:session-did-not-come-up", &e, case.json()),
            Err(e) => vcore::machinery_error(&e),
        }
        r.finish_replay();
    }
    let thorough = r.tier().is_thorough();
    let max_peers = r.args.extra_value("--peers").and_then(|s| s.parse().ok()).unwrap_or(if thorough { 5 } else { 4 });
    let mut cases = gen_cases(max_peers, true, thorough);
    // smallest clusters first, within a size fault-free before faulted (stable: simplest splits first)
    // the few slow (wall-clock) cases first so that they overlap with everything else
    cases.sort_by_key(|c| (c.slow.is_none(), c.peers, c.fault.is_some()));
    let total = cases.len();
    for c in cases.iter().step_by((total / 4).max(1)).take(4) {
        r.sample(c.json());
    }
    r.counters.add("cases_fault_free", cases.iter().filter(|c| c.fault.is_none()).count() as u64);
    r.counters.add("cases_slow_pages_total_longer_than_request_timeout", cases.iter().filter(|c| c.slow.is_some()).count() as u64);
    r.counters.add("cases_with_constant_paging_state", cases.iter().filter(|c| c.constant.is_some()).count() as u64);
    r.counters.add("cases_with_zero_length_paging_state", cases.iter().filter(|c| c.empty.is_some()).count() as u64);
    for k in ["invalid", "delay", "reset", "unprepared"] {
        r.counters.add(&format!("cases_fault_{k}"), cases.iter().filter(|c| c.fault.as_ref().map(|f| f.2 == k).unwrap_or(false)).count() as u64);
    }
    for p in 0..=max_peers {
        r.counters.add(&format!("cases_peers_{p}"), cases.iter().filter(|c| c.peers == p).count() as u64);
        r.counters.add(&format!("peer_splits_covered_{p}"), cases.iter().filter(|c| c.peers == p && c.fault.is_none()).map(|c| c.splits["system.peers"].clone()).collect::<BTreeSet<_>>().len() as u64);
    }
    r.counters.add("column_table_splits_covered", cases.iter().map(|c| c.splits["system_schema.columns"].clone()).collect::<BTreeSet<_>>().len() as u64);
    let nontrivial = cases.iter().filter(|c| c.splits["system.peers"].len() >= 2).count() as u64;
    let cases = Arc::new(cases);
    let out = Arc::new(Mutex::new(Out { complaints: Vec::new(), outcomes: BTreeMap::new(), done: 0, worlds: 0, machinery: None, pages_served: 0 }));
    let next = Arc::new(AtomicUsize::new(0));
    rt.block_on(async {
        let mut hs = Vec::new();
        for _ in 0..jobs {
            hs.push(tokio::spawn(worker(cases.clone(), next.clone(), out.clone())));
        }
        for h in hs {
            if let Err(e) = h.await {
                out.lock().unwrap().machinery.get_or_insert(format!("worker: {e}"));
            }
        }
    });
    let g = out.lock().unwrap();
    if let Some(e) = &g.machinery {
        if g.complaints.is_empty() {
            vcore::machinery_error(e);
        }
        println!("note: machinery problem after a violation was found: {e}");
    }
    r.eval(g.done as u64);
    r.nontrivial(nontrivial.min(g.done as u64));
    for (k, v) in &g.outcomes {
        r.counters.add(&format!("outcome_{}", k.replace(':', "_")), *v);
    }
    r.counters.add("worlds_built", g.worlds as u64);
    r.counters.add("page_requests_with_zero_length_paging_state", EMPTY_STATES_SEEN.load(Ordering::Relaxed));
    r.counters.add("system_table_pages_served_in_checked_refreshes", g.pages_served);
    for (k, t, c) in &g.complaints {
        r.violation(k, t, c.clone());
    }
    r.note("cases_enumerated", json!(total));
    r.note("bounds", json!({"peers_max": max_peers, "faults_per_run": 1}));
    r.set_exhaustive(g.done == total && g.complaints.is_empty());
    r.set_rule("refreshes in which system.peers was served in at least two pages (a page request with a paging state on the control connection)");
    r.assume("the published ClusterState keys nodes by host id, keyspaces/tables/columns by name: a row delivered twice is not visible there; loss and foreign rows are. Duplicate delivery on the single-connection pager is covered only through the exact page-request sequence");
    r.assume("system tables use the mock's built-in paging states `mockpg:<i>`; the paging-state byte alphabets are enumerated by the session-pager legs");
    r.assume("client-internal task scheduling is whatever the OS produces (engine E-MOCK)");
    if g.complaints.is_empty() && g.done != total {
        vcore::machinery_error(&format!("only {} of {} cases ran", g.done, total));
    }
    drop(g);
    r.finish();
}
