//! C19 leg `mock` (E-MOCK): the user-visible half of the property - "a metadata refresh that was requested is
//! eventually answered, and the published state reflects the latest fetched topology".
//! A real Session is connected to a 4-node mock cluster. Between refreshes the mock changes its peer list:
//! every sequence of <= 3 changes over {add a node, remove a node, both at once} x the removed node {stays
//! reachable, is killed (listener closed, connections reset)} x refresh {one call, two concurrent calls} x
//! refresh {after every change, only after the last}. Each `Session::refresh_metadata()` must return Ok within the
//! liveness deadline, and `Session::get_cluster_state()` read right after it returned must list exactly the
//! host ids the mock serves at that moment (system.local + system.peers), each once, at their addresses.
//! `held` cases (every change sequence whose last change adds a node): the handshake of the new node's connections is
//! parked behind a gate, so the first refresh call stays inside the client's state publication (it waits for the new
//! pool) while two more calls are made; their fetches complete and pile up in the internal hand-off; then the gate is
//! released. All three calls must return Ok and the state must be the latest - the server-side order that makes several
//! refresh requests share one hand-off value.
use h_mock::sess;
use mockcluster::{KeyspaceSpec, MockCluster, NodeSpec, TableSpec};
use scylla::client::session::Session;
use scylla::client::session_builder::SessionBuilder;
use serde_json::{Value, json};
use std::collections::BTreeSet;
use std::sync::Arc;
use std::sync::atomic::AtomicBool;
use uuid::Uuid;
use vcore::Report;

/// set after a hang was reported: every further case would wait for the liveness deadline again
static STOP: AtomicBool = AtomicBool::new(false);

const CHANGES: [&str; 3] = ["add", "remove", "both"];

#[derive(Clone, Debug)]
struct Case {
    changes: Vec<usize>,
    kill_removed: bool,
    concurrent: bool,
    refresh_each: bool,
    /// last step: 3 refresh calls around a held handshake of the added node
    held: bool,
}
impl Case {
    fn json(&self) -> Value {
        json!({"leg":"mock","changes":self.changes.iter().map(|c| CHANGES[*c]).collect::<Vec<_>>(),"kill_removed":self.kill_removed,"concurrent_refreshes":self.concurrent,"refresh_after_every_change":self.refresh_each,"held_handshake":self.held})
    }
    fn from_json(v: &Value) -> Case {
        Case {
            changes: v["changes"].as_array().map(|a| a.iter().filter_map(|x| CHANGES.iter().position(|c| Some(*c) == x.as_str())).collect()).unwrap_or_default(),
            kill_removed: v["kill_removed"].as_bool().unwrap_or(false),
            concurrent: v["concurrent_refreshes"].as_bool().unwrap_or(false),
            refresh_each: v["refresh_after_every_change"].as_bool().unwrap_or(true),
            held: v["held_handshake"].as_bool().unwrap_or(false),
        }
    }
}

fn all_cases() -> Vec<Case> {
    let mut seqs: Vec<Vec<usize>> = vec![vec![]];
    let mut frontier: Vec<Vec<usize>> = vec![vec![]];
    for _ in 0..3 {
        let mut next = Vec::new();
        for s in &frontier {
            for c in 0..3 {
                let mut t = s.clone();
                t.push(c);
                next.push(t);
            }
        }
        seqs.extend(next.iter().cloned());
        frontier = next;
    }
    let mut out = Vec::new();
    for changes in seqs {
        for kill_removed in [false, true] {
            for concurrent in [false, true] {
                for refresh_each in [true, false] {
                    if changes.len() <= 1 && !refresh_each {
                        continue; // identical to refresh_each
                    }
                    if !changes.iter().any(|c| *c != 0) && kill_removed {
                        continue; // nothing is removed
                    }
                    out.push(Case { changes: changes.clone(), kill_removed, concurrent, refresh_each, held: false });
                }
            }
            if matches!(changes.last(), Some(0) | Some(2)) && (!kill_removed || changes.iter().any(|c| *c != 0)) {
                out.push(Case { changes: changes.clone(), kill_removed, concurrent: true, refresh_each: true, held: true });
            }
        }
    }
    out
}

fn token_of(i: usize) -> i64 {
    -8_000_000_000_000_000_000 + (i as i64) * 1_000_000_000_000_000_000
}

enum Outcome {
    Ok,
    Violation(&'static str, String),
}

async fn refresh_and_check(session: &Arc<Session>, cluster: &MockCluster, ring: &BTreeSet<usize>, c: &Case, step: usize, held_node: Option<usize>, r: &Report) -> Outcome {
    let from = cluster.log_len();
    let deadline = mockcluster::DEADLINE;
    // the calls run as spawned tasks so that a panic inside the client is an outcome, not the end of the checker
    let call = || {
        let s = session.clone();
        tokio::spawn(async move { s.refresh_metadata().await })
    };
    let n_calls = if held_node.is_some() { 3 } else if c.concurrent { 2 } else { 1 };
    let handles: Vec<_> = match held_node {
        None => (0..n_calls).map(|_| call()).collect(),
        Some(n) => {
            let rule = cluster.hold(move |a| a.is_accept() && a.node == n);
            let first = call();
            // condition: the client is opening the new node's pool, i.e. it is inside the publication of the first fetch
            if let Err(e) = cluster.wait_held("the client connects to the added node", move |a| a.is_accept() && a.node == n).await {
                vcore::machinery_error(&format!("{e}\n{}", cluster.dump_log()));
            }
            let more = vec![call(), call()];
            // settle window (detection power only, never the verdict): the two further fetches complete and queue up
            cluster.quiesce(std::time::Duration::from_millis(60)).await;
            cluster.unhold(rule);
            cluster.release_all();
            r.counters.add("held_handshake_scenarios", 1);
            std::iter::once(first).chain(more).collect()
        }
    };
    let joined = match tokio::time::timeout(deadline, futures::future::join_all(handles)).await {
        Ok(j) => j,
        Err(_) => {
            STOP.store(true, std::sync::atomic::Ordering::SeqCst);
            return Outcome::Violation("refresh-hang", format!("{n_calls} refresh_metadata() call(s) did not all return within {deadline:?} (step {step})"));
        }
    };
    let mut results = Vec::new();
    for j in joined {
        match j {
            Ok(res) => results.push(res),
            Err(e) => return Outcome::Violation("refresh-panicked", format!("refresh_metadata() panicked at step {step}: {e}")),
        }
    }
    // read the published state FIRST: nothing may happen between the return of refresh_metadata and this read
    let state = session.get_cluster_state();
    for res in results {
        if let Err(e) = res {
            return Outcome::Violation("refresh-failed", format!("refresh_metadata() failed at step {step}: {e}"));
        }
    }
    r.counters.add("refreshes_checked", 1);
    let peers_reads = cluster.log_since(from).iter().filter(|e| e.is_stmt("select host_id, rpc_address, data_center, rack, tokens from system.peers") || e.statement().map(|s| s.contains("system.peers")).unwrap_or(false)).count();
    r.counters.add("system_peers_reads_during_refreshes", peers_reads as u64);
    let mut want: Vec<(Uuid, std::net::IpAddr)> = ring.iter().map(|i| (cluster.host_id(*i), std::net::IpAddr::V4(cluster.ip(*i)))).collect();
    want.sort();
    let mut got: Vec<(Uuid, std::net::IpAddr)> = state.get_nodes_info().iter().map(|n| (n.host_id, n.address.ip())).collect();
    got.sort();
    if got != want {
        let name = |v: &[(Uuid, std::net::IpAddr)]| v.iter().map(|(h, ip)| format!("{}@{ip}", cluster.node_of_host_id(*h).map(|i| format!("n{i}")).unwrap_or_else(|| h.to_string()))).collect::<Vec<_>>();
        return Outcome::Violation(
            "stale-or-wrong-state",
            format!("after refresh_metadata() returned (step {step}) get_cluster_state() lists {:?}, the cluster's latest peers are {:?}", name(&got), name(&want)),
        );
    }
    Outcome::Ok
}

async fn run_case(r: &Report, c: &Case) {
    let mut b = MockCluster::builder();
    for i in 0..4 {
        b = b.node(NodeSpec::new("dc1", "r1", vec![token_of(i), token_of(i) + 7]));
    }
    let cluster = b.keyspace(KeyspaceSpec::simple("ks", 2).table(TableSpec::new("t").pk("a", "int"))).build().await.unwrap_or_else(|e| vcore::machinery_error(&e));
    let session = Arc::new(SessionBuilder::new().known_node(cluster.contact_point(0)).build().await.unwrap_or_else(|e| vcore::machinery_error(&format!("session: {e}\n{}", cluster.dump_log()))));
    let mut ring: BTreeSet<usize> = (0..4).collect();
    r.eval(1);
    let mut verdict = Outcome::Ok;
    // step 0: the initial state
    if let Outcome::Violation(k, w) = refresh_and_check(&session, &cluster, &ring, c, 0, None, r).await {
        verdict = Outcome::Violation(k, w);
    }
    if matches!(verdict, Outcome::Ok) {
        for (i, ch) in c.changes.iter().enumerate() {
            let mut added = None;
            if *ch == 0 || *ch == 2 {
                let idx = cluster.node_count();
                let n = cluster.add_node(NodeSpec::new("dc1", "r2", vec![token_of(idx), token_of(idx) + 7])).await.unwrap_or_else(|e| vcore::machinery_error(&e));
                ring.insert(n);
                added = Some(n);
                r.counters.add("nodes_added", 1);
            }
            if *ch == 1 || *ch == 2 {
                let victim = *ring.iter().find(|n| **n != 0).unwrap_or_else(|| vcore::machinery_error("no removable node"));
                cluster.set_in_ring(victim, false);
                ring.remove(&victim);
                if c.kill_removed {
                    cluster.kill_node(victim).await;
                }
                r.counters.add("nodes_removed", 1);
            }
            if c.refresh_each || i + 1 == c.changes.len() {
                let held_node = (c.held && i + 1 == c.changes.len()).then_some(added.unwrap_or(0));
                if let Outcome::Violation(k, w) = refresh_and_check(&session, &cluster, &ring, c, i + 1, held_node, r).await {
                    verdict = Outcome::Violation(k, w);
                    break;
                }
            }
        }
    }
    r.counters.max("max_nodes_in_final_state", ring.len() as u64);
    if let Outcome::Violation(key, what) = verdict {
        r.violation(&format!("mock:{key}"), &format!("{}: {what}", c.json()), c.json());
    }
    cluster.shutdown().await;
    drop(session);
}

fn main() {
    let r = Report::new("C19", "mock", "model_checking", "E-MOCK");
    sess::watchdog(std::time::Duration::from_secs(r.tier().pick(600, 3600)));
    vcore::quiet_panics();
    if let Some(case) = r.replay_case() {
        let c = Case::from_json(&case);
        println!("replaying {}", c.json());
        sess::block_on(2, run_case(&r, &c));
        r.finish_replay();
    }
    let all = all_cases();
    r.note("cases", json!(all.len()));
    r.nontrivial(all.iter().filter(|c| c.changes.len() >= 2).count() as u64);
    r.set_rule("cases with at least 2 peer-list changes (a later refresh must replace a state that itself came from a refresh)");
    r.sample(all[0].json());
    r.sample(all[all.len() / 2].json());
    r.sample(all[all.len() - 1].json());
    let parts = r.args.jobs.clamp(1, 16);
    r.set_exhaustive(true);
    let rr = &r;
    std::thread::scope(|s| {
        for b in sess::buckets(all, parts) {
            s.spawn(move || {
                sess::block_on(2, async {
                    for c in &b {
                        if STOP.load(std::sync::atomic::Ordering::SeqCst) {
                            rr.counters.add("cases_skipped_after_a_hang", 1);
                            rr.set_exhaustive(false);
                            continue;
                        }
                        run_case(rr, c).await;
                    }
                })
            });
        }
    });
    r.assume("the control connection's node (contact point) is never removed; removed nodes disappear from system.peers of the control node, optionally also die");
    r.assume("no topology events are pushed and the periodic refresh (60 s) does not fire during a case, so the only fetches are the requested ones");
    r.assume("client-internal scheduling is whatever the OS produces; the oracle (state read right after the call returned equals the served peer list) holds under every schedule of a correct client");
    r.finish();
}
