//! C07 (E-MOCK): paged iteration through the session pagers (`Session::query_iter` unprepared without values,
//! `Session::execute_iter` prepared + token-aware) against a 3-node mock cluster.
//!
//! Legs (`--leg`):
//!   split     fault-free, eager consumer: EVERY split of N rows into pages (empty pages anywhere, at most two in a
//!             row) x every paging-state alphabet x both pagers
//!   fault     the same splits x every (page, fault) position: one fault per run (quick), two (thorough)
//!   consumer  consumer regimes (pause at a page boundary until the producer is as far ahead as the channel lets it,
//!             pause at every boundary, drop after k rows) x splits, fault-free and (thorough) with one fault
//! Oracle (h_mock::c07_pager::expect, from the property statement): delivered rows = concatenation of the scripted
//! pages up to the first non-retried fault, each once, in order, then end / error; page request i carries the state
//! returned with page i-1, the first none, a retry the same state again (read off the frames the mock logged, paging
//! state re-parsed by cqlref); after an early drop at most one further page is requested.
use h_mock::c07_pager::{self as pg, Case, Consumer, Fault, Mode, PsKind, RowShape};
use serde_json::json;
use std::collections::BTreeSet;
use std::sync::Arc;
use vcore::Report;

fn base(mode: Mode, split: &[usize], ps: PsKind) -> Case {
    Case { mode, idempotent: false, split: split.to_vec(), ps, faults: Vec::new(), consumer: Consumer::Eager, nodes: pg::NODES, cached_metadata: false, metadata_anyway_on: None, shape: RowShape::Nulls(0), extras: None }
}

/// paging-state alphabets of the quick tier (thorough adds `mixed`); the rotation below walks this list
const PSQ: [PsKind; 9] = [PsKind::OneByte, PsKind::Zero, PsKind::Ff, PsKind::Long, PsKind::Empty1, PsKind::Empty2, PsKind::Const, PsKind::SamePrev1, PsKind::SamePrev2];

fn gen_split(nmax: usize, thorough: bool) -> Vec<Case> {
    let kinds: Vec<PsKind> = if thorough { PsKind::ALL.to_vec() } else { PSQ.to_vec() };
    let mut v = Vec::new();
    for n in 0..=nmax {
        for s in pg::splits(n) {
            for ps in &kinds {
                for mode in Mode::ALL {
                    if s.len() == 1 && *ps != kinds[0] {
                        continue; // a single page never shows a paging state
                    }
                    if (s.len() <= 2 && matches!(ps, PsKind::Empty2 | PsKind::SamePrev1)) || (s.len() <= 3 && *ps == PsKind::SamePrev2) {
                        continue; // identical to one-byte
                    }
                    v.push(base(mode, &s, *ps));
                    // prepared pager with cached result metadata: the server honours "skip metadata" on every page /
                    // attaches metadata anyway on page k (every k); alphabets that only differ in the bytes rotate
                    if mode == Mode::Prepared && *ps == kinds[0] && (thorough || n <= 4) {
                        v.push(Case { cached_metadata: true, ..base(mode, &s, *ps) });
                        for k in 0..s.len() {
                            v.push(Case { cached_metadata: true, metadata_anyway_on: Some(k), ..base(mode, &s, *ps) });
                        }
                    }
                }
            }
        }
    }
    v
}

/// idempotence values worth running for a fault list: both when some fault's verdict depends on it
fn idem_values(faults: &[(usize, Fault)], thorough: bool) -> Vec<bool> {
    if faults.iter().any(|(_, f)| matches!(f, Fault::Overloaded | Fault::Reset)) || thorough { vec![false, true] } else { vec![false] }
}

fn gen_fault(nmax1: usize, nmax2: Option<usize>) -> Vec<Case> {
    let mut v = Vec::new();
    let mut i = 0usize;
    for n in 0..=nmax1.max(nmax2.unwrap_or(0)) {
        for s in pg::splits(n) {
            let pages = s.len();
            let mut lists: Vec<Vec<(usize, Fault)>> = Vec::new();
            if n <= nmax1 {
                for p in 0..pages {
                    for f in Fault::ALL {
                        lists.push(vec![(p, f)]);
                    }
                }
            }
            if nmax2.map(|m| n <= m).unwrap_or(false) {
                // every ordered pair of faults: on the same page (second one hits the retry) or on two pages
                for p in 0..pages {
                    for q in p..pages {
                        for f in Fault::ALL {
                            for g in Fault::ALL {
                                lists.push(vec![(p, f), (q, g)]);
                            }
                        }
                    }
                }
            }
            for faults in lists {
                for idem in idem_values(&faults, false) {
                    // the paging-state alphabet rotates over the (fault list, idempotence) pairs, the same for both pagers:
                    // every alphabet x every fault kind x every pager occurs
                    let ps = PSQ[i % PSQ.len()];
                    i += 1;
                    for mode in Mode::ALL {
                        // prepared pager: cached result metadata off / on / on with the server attaching metadata anyway
                        // on a rotating page
                        let (cached_metadata, metadata_anyway_on) = match (mode, i % 3) {
                            (Mode::Prepared, 1) => (true, None),
                            (Mode::Prepared, 2) => (true, Some((i / 3) % s.len())),
                            _ => (false, None),
                        };
                        let c = Case { idempotent: idem, faults: faults.clone(), cached_metadata, metadata_anyway_on, ..base(mode, &s, ps) };
                        if pg::admissible(&c) {
                            v.push(c);
                        }
                    }
                }
            }
        }
    }
    v
}

/// A retryable next-node failure on the FIRST attempt of every page from page j on, in ONE iteration that has more
/// pages than the cluster has nodes: each page request must get its own fresh set of fail-over targets.
fn gen_every_page() -> Vec<Case> {
    let mut v = Vec::new();
    let mut i = 0usize;
    for nodes in [2usize, 3] {
        for pages in nodes + 1..=nodes + 4 {
            for shape in 0..2 {
                // one row per page / every second page empty
                let split: Vec<usize> = (0..pages).map(|p| if shape == 0 || p % 2 == 0 { 1 } else { 0 }).collect();
                for j in 0..pages {
                    // OVERLOADED on an idempotent statement / UNAVAILABLE (retried on the next node once per page request)
                    for (f, idem) in [(Fault::Overloaded, true), (Fault::Unavailable, false)] {
                        for cons in [Consumer::Eager, Consumer::PauseAll] {
                            let ps = PSQ[i % PSQ.len()];
                            i += 1;
                            for mode in Mode::ALL {
                                let c = Case { idempotent: idem, faults: (j..pages).map(|p| (p, f)).collect(), consumer: cons.clone(), nodes, ..base(mode, &split, ps) };
                                assert!(pg::admissible(&c) && pg::expect(&c).error.is_none());
                                v.push(c);
                            }
                        }
                    }
                }
            }
        }
    }
    v
}

/// Pages whose frame body exceeds 32 KiB / 64 KiB (one text cell of 40 000 / 70 000 bytes in row 0, which is followed
/// by further rows on the same or on later pages), fault-free and with a fault on the big page.
fn gen_big(with_faults: bool) -> Vec<Case> {
    let mut v = Vec::new();
    for size in [40_000usize, 70_000] {
        for split in [vec![2usize], vec![1, 1], vec![2, 1], vec![0, 2, 0, 1]] {
            let big_page = split.iter().position(|s| *s > 0).unwrap();
            for mode in Mode::ALL {
                let b = Case { shape: RowShape::Big(size), ..base(mode, &split, PsKind::OneByte) };
                if !with_faults {
                    v.push(b.clone());
                    if mode == Mode::Prepared {
                        v.push(Case { cached_metadata: true, ..b.clone() });
                    }
                } else {
                    for f in [Fault::Reset, Fault::Delay, Fault::ReadTimeout] {
                        v.push(Case { idempotent: true, faults: vec![(big_page, f)], ..b.clone() });
                    }
                }
            }
        }
    }
    v
}

/// One page (every position, first and later) whose frame carries {warnings, custom payload, both, both + tracing id}.
fn gen_extras(nmax: usize) -> Vec<Case> {
    let mut v = Vec::new();
    for n in 0..=nmax {
        for s in pg::splits(n) {
            for p in 0..s.len() {
                for kind in 1..=4u8 {
                    for mode in Mode::ALL {
                        v.push(Case { extras: Some((p, kind)), ..base(mode, &s, PsKind::OneByte) });
                    }
                }
            }
        }
    }
    v
}

fn consumers_for(split: &[usize]) -> Vec<Consumer> {
    let n: usize = split.iter().sum();
    let mut v = Vec::new();
    let mut acc = 0;
    let mut bounds = BTreeSet::new();
    bounds.insert(0usize);
    for s in split {
        acc += s;
        if *s > 0 && acc < n {
            bounds.insert(acc);
        }
    }
    for b in bounds {
        v.push(Consumer::PauseAt(b));
    }
    v.push(Consumer::PauseAll);
    for k in 0..=n {
        v.push(Consumer::DropAfter(k));
    }
    v
}

fn gen_consumer(nmax: usize, nmax_fault: Option<usize>, with_reset: bool) -> Vec<Case> {
    let mut v = Vec::new();
    let mut i = 0usize;
    for n in 0..=nmax {
        for s in pg::splits(n) {
            if s.len() < 2 {
                continue;
            }
            for cons in consumers_for(&s) {
                let ps = PSQ[i % PSQ.len()];
                i += 1;
                for mode in Mode::ALL {
                    v.push(Case { consumer: cons.clone(), ..base(mode, &s, ps) });
                }
            }
        }
    }
    if let Some(nmax_fault) = nmax_fault {
        for n in 0..=nmax_fault {
            for s in pg::splits(n) {
                if s.len() < 2 {
                    continue;
                }
                for cons in consumers_for(&s) {
                    for p in 0..s.len() {
                        for f in Fault::ALL {
                            if f == Fault::Reset && !with_reset {
                                continue;
                            }
                            for idem in idem_values(&[(p, f)], false) {
                                let mode = if f == Fault::Unprepared { Mode::Prepared } else { Mode::ALL[i % 2] };
                                let ps = PSQ[(i / 2) % PSQ.len()];
                                i += 1;
                                let c = Case { idempotent: idem, faults: vec![(p, f)], consumer: cons.clone(), ..base(mode, &s, ps) };
                                if pg::admissible(&c) {
                                    v.push(c);
                                }
                            }
                        }
                    }
                }
            }
        }
    }
    v
}

fn main() {
    let args = vcore::Args::parse("C07.pager");
    let leg = args.extra_value("--leg").unwrap_or("split").to_string();
    let args = vcore::Args { out: if args.out.ends_with("C07.pager.json") { args.out.with_file_name(format!("C07.{leg}.json")) } else { args.out.clone() }, ..args };
    let r = Report::with_args("C07", &leg, "fault_enumeration", "E-MOCK", args);
    let jobs = r.args.jobs.min(16);
    let rt = tokio::runtime::Builder::new_multi_thread().worker_threads(jobs.max(2)).enable_all().build().unwrap();

    if let Some(case) = r.replay_case() {
        let Some(case) = Case::from_json(&case) else { vcore::machinery_error("replay artefact does not hold a C07 case") };
        let res = rt.block_on(async {
            let mut w = pg::World::setup(case.nodes).await?;
            let (mut c, obs) = w.run_case(&case).await?;
            w.settle().await;
            c.extend(w.judge_drops().0);
            println!("case {}\nexpected {:?}\nobserved {:?}", case.json(), pg::expect(&case), obs);
            if std::env::var("C07_DUMP").is_ok() {
                println!("{}", w.cluster.dump_log());
            }
            w.teardown().await;
            Ok::<_, String>(c)
        });
        match res {
            Ok(c) => {
                for x in c {
                    r.violation(&x.key, &x.text, x.case);
                }
            }
            Err(e) => vcore::machinery_error(&e),
        }
        r.finish_replay();
    }

    let thorough = r.tier().is_thorough();
    let nmax_arg: Option<usize> = r.args.extra_value("--nmax").and_then(|s| s.parse().ok());
    let (cases, bound_note) = match leg.as_str() {
        "split" => {
            let nmax = nmax_arg.unwrap_or(if thorough { 6 } else { 5 });
            let mut cases = gen_split(nmax, thorough);
            cases.extend(gen_big(false));
            cases.extend(gen_extras(if thorough { 3 } else { 2 }));
            (cases, json!({"rows_max": nmax, "faults_per_run": 0}))
        }
        "fault" => {
            let nmax = nmax_arg.unwrap_or(if thorough { 4 } else { 3 });
            let nmax2: Option<usize> = if thorough { Some(r.args.extra_value("--nmax2").and_then(|s| s.parse().ok()).unwrap_or(3)) } else { None };
            let mut cases = gen_fault(nmax, nmax2);
            cases.extend(gen_every_page());
            cases.extend(gen_big(true));
            (cases, json!({"rows_max_one_fault": nmax, "rows_max_two_faults": nmax2, "faults_per_run": if thorough { 2 } else { 1 }, "every_page_family": "next-node failure on the first attempt of every page from page j on, 2- and 3-node clusters, nodes+1..nodes+4 pages"}))
        }
        "consumer" => {
            let nmax = nmax_arg.unwrap_or(if thorough { 5 } else { 4 });
            let nf = r.args.extra_value("--nmax2").and_then(|s| s.parse().ok()).unwrap_or(if thorough { 3 } else { 2 });
            (gen_consumer(nmax, Some(nf), thorough), json!({"rows_max": nmax, "rows_max_with_fault": nf, "faults_per_run": 1, "reset_fault_combined_with_consumers": thorough}))
        }
        other => vcore::machinery_error(&format!("unknown --leg {other}")),
    };
    let mut cases = cases;
    // the NULL pattern of the rows rotates over the cases: row idx has NULLs in the columns given by the bits of
    // (idx + offset) mod 8, so every NULL position/combination occurs in first, middle and last rows of pages
    for (i, c) in cases.iter_mut().enumerate() {
        if let RowShape::Nulls(_) = c.shape {
            c.shape = RowShape::Nulls(((i / 2 + i / 16) % 8) as u8);
        }
    }
    // cases with a connection reset need a world of their own: run them after the others (stable: simplest first within each group)
    cases.sort_by_key(|c| (c.has_reset(), pg::NODES - c.nodes));
    if r.args.has_flag("--count") {
        println!("{} cases", cases.len());
        std::process::exit(0);
    }
    let mut full = true;
    if let Some(limit) = r.args.extra_value("--limit").and_then(|s| s.parse::<usize>().ok()) {
        full = limit >= cases.len();
        cases.truncate(limit);
    }
    run(r, rt, cases, bound_note, jobs, full)
}

fn run(r: Report, rt: tokio::runtime::Runtime, cases: Vec<Case>, bound_note: serde_json::Value, jobs: usize, full: bool) -> ! {
    let total = cases.len();
    for (k, v) in pg::dimension_counts(&cases) {
        r.counters.add(&k, v);
    }
    let cases = Arc::new(cases);
    let res = rt.block_on(pg::run_batch(cases.clone(), jobs, 6));
    if let Some(e) = &res.machinery {
        if res.complaints.is_empty() {
            vcore::machinery_error(e);
        }
        println!("note: machinery problem after a violation was found: {e}");
    }
    let mut outcomes: BTreeSet<String> = BTreeSet::new();
    let mut nontrivial: BTreeSet<usize> = BTreeSet::new();
    for (i, o) in &res.observed {
        r.eval(1);
        r.counters.add("rows_delivered", o.rows as u64);
        r.counters.add("null_cells_delivered", o.null_cells as u64);
        r.counters.add("rows_delivered_after_a_row_with_null_in_the_same_page", o.rows_after_null_row_in_page as u64);
        r.counters.max("largest_cell_delivered_bytes", o.max_cell_bytes as u64);
        r.counters.add("page_requests_checked", o.frames_checked as u64);
        r.counters.add("paging_states_checked", o.states_checked as u64);
        r.counters.max("longest_paging_state_bytes", o.max_state_len as u64);
        r.counters.add("retries_seen", o.retries as u64);
        r.counters.add("retries_on_same_node", o.same_node_retries as u64);
        r.counters.add("retries_on_other_node", o.node_switches as u64);
        r.counters.add("consumer_pauses", o.pauses as u64);
        r.counters.add("delayed_responses_released_while_consumer_polls", o.delays_released_while_polling as u64);
        r.counters.add(&format!("end_{}", o.end.replace(':', "_")), 1);
        outcomes.insert(format!("{}|{}|{}|{}", o.rows, o.end, o.requests, o.retries));
        if o.states_checked >= 1 {
            nontrivial.insert(*i);
        }
    }
    r.nontrivial(nontrivial.len() as u64);
    r.counters.add("worlds_built", res.worlds as u64);
    r.counters.add("early_drops_judged_after_settle", res.drops_judged as u64);
    r.note("distinct_outcomes", json!(outcomes.len()));
    r.note("cases_enumerated", json!(total));
    r.note("bounds", bound_note);
    for c in cases.iter().step_by((total / 5).max(1)).take(5) {
        r.sample(c.json());
    }
    for c in &res.complaints {
        r.violation(&c.key, &c.text, c.case.clone());
    }
    let complete = res.observed.len() == total && full;
    r.set_exhaustive(complete && res.complaints.is_empty());
    r.set_rule("cases in which at least one page request carrying a paging state was seen by the mock and checked (i.e. the result had more than one page and the pager got past the first)");
    r.assume("client-internal task scheduling is whatever the OS produces (engine E-MOCK); every oracle holds under every client schedule");
    r.assume("the session uses the default retry policy and the default load balancing; which node serves a page is not owned (sampled by the driver's RNG) and no oracle depends on it");
    r.assume("expected-absent page requests after an early drop are judged after a settle window of 60 ms without server-side activity (upper bounds only: a late request can be missed, never invented)");
    if res.complaints.is_empty() && outcomes.len() < 2 && total > 1 {
        vcore::machinery_error("vacuous: fewer than 2 distinct outcomes");
    }
    if res.complaints.is_empty() && res.observed.len() != total {
        vcore::machinery_error(&format!("only {} of {} cases ran", res.observed.len(), total));
    }
    drop(rt);
    r.finish();
}
