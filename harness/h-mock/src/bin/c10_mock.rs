//! C10 leg "mock" (E-MOCK): a real Session with a real pool against a 2-node mock on real sockets. Node A (index 1)
//! owns every token, so the token-aware plan of every test request is [A, B]; the pool holds one connection per
//! node. 1..3 requests are in flight on A's pool connection when that connection dies:
//!
//!  * FIN or RST (SO_LINGER 0) after the response stream was cut: j complete responses, then the next response cut
//!    at header offsets 1..8, at three body offsets (first body byte, middle, last byte missing) or exactly between
//!    frames (offset 0);
//!  * the stream continues with a garbage header, a version-3 header, a version-5 header, a client-direction header,
//!    an unknown opcode, a well-formed frame for a stream nobody waits on, or a second answer on an answered stream;
//!  * the node goes silent (no response, no keep-alive answer) with keep-alive interval/timeout configured short;
//!  * timing relative to the request writes: after the mock saw (and parked) all requests; as the reaction to the
//!    first request that arrives while the others are being written; before any request was issued.
//!
//! Second part ("same-target"): the same session but with a harness retry policy that answers RetrySameTarget (up to
//! 3 times) to a broken connection, pools of 2 and of 1 connections per node, FIN/RST (between frames, inside the
//! header, inside the body) on the connection that carries request 0. The policy's first decision waits until the
//! mock has seen the pool's replacement connection, i.e. until the pool has evicted the dead one, so which
//! connections the pool offers at the retry is not left to a race. Oracle: every caller completes; with a pool of 2
//! the retried attempt arrives on a LIVE connection of the same node and the caller gets that node's rows; with a
//! pool of 1 success (new connection or next node) or an error are accepted, a hang is not.
//!
//! Third part ("sharded"): one ScyllaDB-like node with N = 2..4 shards, one pool connection per shard (shard-aware
//! port); new connections are parked at accept (the pool cannot refill), the connections of every proper and improper
//! non-empty subset of shards survive an RST of the others, and a request routed to every shard s is issued once the
//! pool has evicted the dead ones (it has as many replacement connections pending as were killed). Oracle: the request
//! is served with its own rows over a surviving connection; no panic, no "no connection" error.
//!
//! Oracle (holds under every client schedule):
//!  * every client future completes within the liveness deadline (20 s where a correct driver needs milliseconds,
//!    or interval+timeout for the silent node);
//!  * a future completes Ok only with exactly the rows some node sent COMPLETELY for that very request;
//!  * a non-idempotent request is seen by the cluster at most once (so one that reached the dying connection
//!    unanswered must fail); an idempotent one succeeds through the other node, as the default retry policy allows;
//!  * afterwards a fresh idempotent request succeeds, node A gets a new connection (pool refilled), and then a fresh
//!    non-idempotent request succeeds.
use h_mock::connleg::*;
use mockcluster::wire::{Envelope, Response};
use mockcluster::{CloseKind, LogKind, Reply};
use serde_json::{Value, json};
use std::collections::BTreeSet;
use std::sync::Arc;
use std::sync::atomic::{AtomicBool, Ordering};
use std::time::Duration;
use tokio::task::JoinHandle;
use vcore::Report;

const KEEPALIVE_INTERVAL: Duration = Duration::from_millis(100);
const KEEPALIVE_TIMEOUT: Duration = Duration::from_millis(300);

#[derive(Clone, Copy, Debug, PartialEq, Eq)]
enum Cut {
    /// offset 0: exactly between frames
    Between,
    /// header offset 1..8
    Header(usize),
    /// header complete, no body byte
    BodyStart,
    BodyMid,
    /// everything but the last byte
    BodyLast,
}
impl Cut {
    fn offset(self, len: usize) -> usize {
        match self {
            Cut::Between => 0,
            Cut::Header(o) => o,
            Cut::BodyStart => 9,
            Cut::BodyMid => 9 + (len - 9) / 2,
            Cut::BodyLast => len - 1,
        }
    }
    fn name(self) -> String {
        match self {
            Cut::Between => "between".into(),
            Cut::Header(o) => format!("header{o}"),
            Cut::BodyStart => "body-start".into(),
            Cut::BodyMid => "body-mid".into(),
            Cut::BodyLast => "body-last".into(),
        }
    }
    fn parse(s: &str) -> Cut {
        match s {
            "between" => Cut::Between,
            "body-start" => Cut::BodyStart,
            "body-mid" => Cut::BodyMid,
            "body-last" => Cut::BodyLast,
            h => Cut::Header(h.trim_start_matches("header").parse().unwrap_or(1)),
        }
    }
    fn all() -> Vec<Cut> {
        let mut v = vec![Cut::Between];
        v.extend((1..=8).map(Cut::Header));
        v.extend([Cut::BodyStart, Cut::BodyMid, Cut::BodyLast]);
        v
    }
}
#[derive(Clone, Copy, Debug, PartialEq, Eq)]
enum RawKind {
    Garbage,
    Version3,
    Version5,
    ClientDirection,
    UnknownOpcode,
    UnsolicitedStream,
    AnsweredStreamAgain,
}
impl RawKind {
    fn all() -> [RawKind; 7] {
        [RawKind::Garbage, RawKind::Version3, RawKind::Version5, RawKind::ClientDirection, RawKind::UnknownOpcode, RawKind::UnsolicitedStream, RawKind::AnsweredStreamAgain]
    }
    fn parse(s: &str) -> RawKind {
        RawKind::all().into_iter().find(|k| format!("{k:?}") == s).unwrap_or(RawKind::Garbage)
    }
    /// `answered`: a stream id the mock already answered on this connection (AnsweredStreamAgain)
    fn bytes(self, answered: Option<i16>) -> Vec<u8> {
        let void = |version: u8, stream: i16, opcode: u8| {
            let mut b = vec![version, 0];
            b.extend_from_slice(&stream.to_be_bytes());
            b.push(opcode);
            b.extend_from_slice(&4u32.to_be_bytes());
            b.extend_from_slice(&1u32.to_be_bytes()); // RESULT kind Void
            b
        };
        match self {
            RawKind::Garbage => b"GET / HTTP/1.1\r\n\r\n".to_vec(),
            RawKind::Version3 => void(0x83, 0, 0x08),
            RawKind::Version5 => void(0x85, 0, 0x08),
            RawKind::ClientDirection => void(0x04, 0, 0x08),
            RawKind::UnknownOpcode => void(0x84, 0, 0x7f),
            RawKind::UnsolicitedStream => void(0x84, 0x7abc, 0x08),
            RawKind::AnsweredStreamAgain => Envelope::from(Response::Void).encode_frame(answered.unwrap_or(0x7abd)),
        }
    }
}
#[derive(Clone, Copy, Debug, PartialEq, Eq)]
enum Fault {
    Close(CloseKind, Cut),
    Raw(RawKind),
    Stall,
}
#[derive(Clone, Copy, Debug, PartialEq, Eq)]
enum Timing {
    /// all k requests arrived and are parked; j answered completely; then the fault
    After,
    /// the fault is the node's reaction to the first test request that arrives; the others are in the writer's hands
    OnFirst,
    /// the fault happens before any request is issued; the client is not given time to notice
    Before,
}
#[derive(Clone, Debug)]
struct Case {
    idem: Vec<bool>,
    answered: usize,
    /// answer the LAST `answered` requests instead of the first ones
    answer_last: bool,
    fault: Fault,
    timing: Timing,
    /// repetition index (the client-side schedule is sampled, not enumerated)
    rep: usize,
    /// node A (owner of every token) is the contact point and also carries the control connection
    ctrl: bool,
}
impl Case {
    fn json(&self) -> Value {
        let fault = match self.fault {
            Fault::Close(k, c) => json!({"close": format!("{k:?}"), "cut": c.name()}),
            Fault::Raw(k) => json!({"raw": format!("{k:?}")}),
            Fault::Stall => json!({"stall": true}),
        };
        json!({"idempotent": self.idem, "answered": self.answered, "answer_last": self.answer_last, "fault": fault, "timing": format!("{:?}", self.timing), "rep": self.rep, "a_is_control_node": self.ctrl})
    }
    fn from_json(v: &Value) -> Case {
        let f = &v["fault"];
        let fault = if let Some(c) = f.get("close") {
            Fault::Close(if c.as_str() == Some("Fin") { CloseKind::Fin } else { CloseKind::Rst }, Cut::parse(f["cut"].as_str().unwrap_or("between")))
        } else if let Some(r) = f.get("raw") {
            Fault::Raw(RawKind::parse(r.as_str().unwrap_or("")))
        } else {
            Fault::Stall
        };
        Case {
            idem: v["idempotent"].as_array().map(|a| a.iter().map(|x| x.as_bool().unwrap_or(false)).collect()).unwrap_or_default(),
            answered: v["answered"].as_u64().unwrap_or(0) as usize,
            answer_last: v["answer_last"].as_bool().unwrap_or(false),
            fault,
            timing: match v["timing"].as_str() {
                Some("OnFirst") => Timing::OnFirst,
                Some("Before") => Timing::Before,
                _ => Timing::After,
            },
            rep: v["rep"].as_u64().unwrap_or(0) as usize,
            ctrl: v["a_is_control_node"].as_bool().unwrap_or(false),
        }
    }
    fn fault_class(&self) -> String {
        match self.fault {
            Fault::Close(k, Cut::Between) => format!("{k:?}_between_frames"),
            Fault::Close(k, Cut::Header(_)) => format!("{k:?}_inside_header"),
            Fault::Close(k, _) => format!("{k:?}_inside_body"),
            Fault::Raw(k) => format!("raw_{k:?}"),
            Fault::Stall => "silent_stall".into(),
        }
        .to_lowercase()
    }
}

#[derive(Default)]
struct Obs {
    violations: Vec<(String, String)>,
    flags: Vec<String>,
    trace: Vec<String>,
    /// a connection the harness did not touch was closed by the client (spurious keep-alive timeout): no verdict on
    /// "idempotent requests succeed elsewhere"
    disturbed: bool,
    inflight_failed: usize,
}
impl Obs {
    fn v(&mut self, key: &str, what: String) {
        self.violations.push((key.to_string(), what));
    }
    fn flag(&mut self, f: &str) {
        self.flags.push(f.to_string());
    }
}

async fn finish(h: JoinHandle<Outcome>) -> Result<Outcome, ()> {
    match tokio::time::timeout(LIVENESS, h).await {
        Ok(Ok(o)) => Ok(o),
        Ok(Err(e)) => Ok(Err(format!("caller task ended abnormally: {e}"))),
        Err(_) => Err(()),
    }
}

async fn run(case: &Case) -> Result<Obs, String> {
    let stall = case.fault == Fault::Stall;
    let w = World::new(&WorldCfg { owner_is_contact_point: case.ctrl, keepalive: stall.then_some((KEEPALIVE_INTERVAL, KEEPALIVE_TIMEOUT)), ..WorldCfg::new(2) }).await?;
    let r = match drive(case, &w).await {
        Ok(obs) => {
            let unexpected = w.cluster.unexpected();
            if !unexpected.is_empty() { Err(format!("mock saw an unscripted request: {}", unexpected[0].describe())) } else { Ok(obs) }
        }
        Err(e) => Err(format!("{e}\n{}", w.cluster.dump_log())),
    };
    w.teardown().await;
    r
}

async fn drive(case: &Case, w: &World) -> Result<Obs, String> {
    let cluster = &w.cluster;
    let k = case.idem.len();
    let node_a: usize = if case.ctrl { 0 } else { 1 };
    let stall = case.fault == Fault::Stall;
    let mut obs = Obs::default();

    // ---- warm-up: find A's pool connection (requests are routed to A once its pool is up)
    let deadline = tokio::time::Instant::now() + LIVENESS;
    let mut warm = FENCE_BASE;
    let victim = loop {
        let from = cluster.log_len();
        w.fence(warm).await?;
        let e = cluster.wait_entry("warm-up frame", from, |e| entry_value(e) == Some(warm)).await?;
        if e.node == node_a {
            break e.conn;
        }
        warm += 1;
        if tokio::time::Instant::now() > deadline {
            return Err("warm-up requests never reached node A".into());
        }
        tokio::task::yield_now().await;
    };
    let fault_from = cluster.log_len();

    // ---- gates
    let fired = Arc::new(AtomicBool::new(false));
    if stall {
        // everything on the victim connection is parked from now on, keep-alive answers included
        cluster.hold(move |a| a.conn == victim && !a.is_accept());
    } else {
        cluster.hold(move |a| a.conn == victim && action_value(a).map(|v| v < FENCE_BASE).unwrap_or(false) && matches!(a.reply(), Some(Reply::Frame(_))));
    }
    match (case.timing, case.fault) {
        (Timing::OnFirst, Fault::Close(kind, cut)) => {
            let fired = fired.clone();
            cluster.handle(move |ctx| {
                if ctx.conn != victim || bound_value(ctx.entry.frame()?).map(|v| v >= FENCE_BASE).unwrap_or(true) || fired.swap(true, Ordering::SeqCst) {
                    return None;
                }
                match ctx.cluster.builtin(ctx) {
                    Reply::Frame(env) => {
                        let len = env.encode_frame(ctx.stream).len();
                        Some(Reply::CutFrame { env, bytes: cut.offset(len), then: kind })
                    }
                    _ => Some(Reply::Close(kind)),
                }
            });
        }
        (Timing::OnFirst, Fault::Raw(rk)) => {
            let fired = fired.clone();
            cluster.handle(move |ctx| {
                if ctx.conn != victim || bound_value(ctx.entry.frame()?).map(|v| v >= FENCE_BASE).unwrap_or(true) || fired.swap(true, Ordering::SeqCst) {
                    return None;
                }
                ctx.cluster.send_raw(victim, rk.bytes(None));
                Some(Reply::Silent)
            });
        }
        (Timing::Before, Fault::Close(kind, _)) => {
            if !cluster.close_conn(victim, kind).await {
                return Err("victim connection was already gone before the fault".into());
            }
            obs.trace.push(format!("{kind:?} before the requests"));
        }
        (Timing::Before, Fault::Raw(rk)) => {
            if !cluster.send_raw(victim, rk.bytes(None)) {
                return Err("victim connection was already gone before the fault".into());
            }
            obs.trace.push(format!("{rk:?} bytes before the requests"));
        }
        _ => {}
    }

    // ---- k concurrent requests
    let callers: Vec<JoinHandle<Outcome>> = (0..k).map(|i| tokio::spawn(w.call(i as i32, case.idem[i]))).collect();

    if case.timing == Timing::After {
        let parked = match cluster.wait_held_count(&format!("{k} responses parked on the victim connection"), k, |a| action_value(a).map(|v| (v as usize) < k).unwrap_or(false)).await {
            Ok(p) => p,
            Err(e) => return Err(e),
        };
        let by_value = |v: usize| parked.iter().find(|a| action_value(a) == Some(v as i32)).cloned().unwrap();
        let answered: Vec<usize> = if case.answer_last { (k - case.answered..k).collect() } else { (0..case.answered).collect() };
        for &i in &answered {
            w.release_in_order(&by_value(i)).await?;
            obs.trace.push(format!("answer {i} completely"));
        }
        let next = (0..k).find(|i| !answered.contains(i));
        match case.fault {
            Fault::Close(kind, cut) => {
                let a = by_value(next.ok_or("no request left to cut")?);
                let env = a.reply().and_then(|r| r.envelope()).cloned().ok_or("parked reply without a frame")?;
                if a.request().and_then(|f| f.request.params()).map(|p| p.skip_metadata).unwrap_or(true) {
                    return Err("request asks to skip metadata: the harness cannot predict the frame length".into());
                }
                let len = env.encode_frame(a.request().unwrap().stream).len();
                let off = cut.offset(len);
                cluster.release_with(a.id, Reply::CutFrame { env, bytes: off, then: kind });
                obs.trace.push(format!("{off} of {len} bytes of the response to {}, then {kind:?}", next.unwrap()));
            }
            Fault::Raw(rk) => {
                let again = answered.first().map(|i| by_value(*i).request().unwrap().stream);
                cluster.send_raw(victim, rk.bytes(again));
                obs.trace.push(format!("{rk:?} bytes"));
            }
            Fault::Stall => obs.trace.push("silence".into()),
        }
    }

    // ---- every future completes
    let log_done;
    let mut outcomes = Vec::new();
    for (i, h) in callers.into_iter().enumerate() {
        match finish(h).await {
            Ok(o) => outcomes.push(o),
            Err(()) => {
                obs.v("c10-mock:caller-hang", format!("request {i} ({}) did not complete within {LIVENESS:?} after its connection died", if case.idem[i] { "idempotent" } else { "non-idempotent" }));
                return Ok(obs);
            }
        }
    }
    log_done = cluster.log();
    obs.disturbed = log_done.iter().any(|e| e.conn != victim && e.seq >= fault_from && matches!(e.kind, LogKind::Closed { .. }));

    for (i, o) in outcomes.iter().enumerate() {
        let v = i as i32;
        let frames: Vec<_> = log_done.iter().filter(|e| entry_value(e) == Some(v)).collect();
        let on_victim = frames.iter().any(|e| e.conn == victim);
        let sent_by = answered_by(&log_done, v);
        match o {
            Ok(rows) => {
                let from_node = sent_by.iter().copied().find(|n| *rows == expected_rows(*n, v));
                match from_node {
                    Some(n) => obs.flag(if n == node_a { if frames.iter().any(|e| e.conn != victim && e.node == node_a) { "ok_via_new_connection_to_a" } else { "ok_from_victim_connection_answered_before_the_fault" } } else { "ok_via_other_node" }),
                    None => obs.v("c10-mock:foreign-or-partial-rows", format!("request {i} completed Ok with rows {rows:?}, which no node sent completely for that request (complete responses came from nodes {sent_by:?})")),
                }
            }
            Err(e) => {
                obs.inflight_failed += 1;
                if case.idem[i] && !obs.disturbed {
                    obs.v("c10-mock:idempotent-not-retried", format!("idempotent request {i} failed although the other node was healthy and the default retry policy retries a broken connection on the next target: {e}"));
                } else {
                    obs.flag(if on_victim { "failed_after_reaching_the_dying_connection" } else { "failed_without_reaching_the_mock" });
                }
            }
        }
        if !case.idem[i] && frames.len() > 1 {
            obs.v("c10-mock:non-idempotent-resent", format!("non-idempotent request {i} was seen {} times by the cluster", frames.len()));
        }
        if case.idem[i] && frames.len() > 1 {
            obs.flag("idempotent_request_sent_twice");
        }
    }

    // ---- the session keeps working
    let fresh1 = warm + 100;
    match tokio::time::timeout(LIVENESS, w.call(fresh1, true)).await {
        Ok(Ok(rows)) => {
            let sent_by = answered_by(&cluster.log(), fresh1);
            if !sent_by.iter().any(|n| rows == expected_rows(*n, fresh1)) {
                obs.v("c10-mock:foreign-or-partial-rows", format!("fresh request completed Ok with rows {rows:?} that no node sent for it"));
            }
        }
        Ok(Err(e)) => {
            if !obs.disturbed {
                obs.v("c10-mock:session-not-working", format!("a fresh idempotent request after the fault failed: {e}"));
            }
        }
        Err(_) => {
            obs.v("c10-mock:caller-hang", format!("a fresh request after the fault did not complete within {LIVENESS:?}"));
            return Ok(obs);
        }
    }
    let refill = cluster.wait_conns("node A has a new ready connection (pool refilled)", LIVENESS, |cs| cs.iter().any(|c| c.node == node_a && c.id > victim && c.ready && c.open).then_some(())).await;
    if refill.is_err() {
        obs.v("c10-mock:pool-not-refilled", format!("node A got no new connection within {LIVENESS:?} after its pool connection died"));
        return Ok(obs);
    }
    if !cluster.conn(victim).map(|c| c.open).unwrap_or(false) {
        obs.flag("victim_connection_closed");
    }
    let fresh2 = warm + 101;
    let non_idempotent = !stall; // keep-alives stay short in stall runs: a second fault would be the harness's own
    match tokio::time::timeout(LIVENESS, w.call(fresh2, !non_idempotent)).await {
        Ok(Ok(rows)) => {
            let log = cluster.log();
            let sent_by = answered_by(&log, fresh2);
            if !sent_by.iter().any(|n| rows == expected_rows(*n, fresh2)) {
                obs.v("c10-mock:foreign-or-partial-rows", format!("fresh request completed Ok with rows {rows:?} that no node sent for it"));
            }
            if log.iter().any(|e| entry_value(e) == Some(fresh2) && e.node == node_a && e.conn != victim) {
                obs.flag("fresh_request_used_the_new_connection_to_a");
            }
        }
        Ok(Err(e)) => {
            let disturbed_now = cluster.log().iter().any(|e| e.conn != victim && e.seq >= fault_from && matches!(e.kind, LogKind::Closed { .. }));
            if !disturbed_now {
                obs.v("c10-mock:session-not-working", format!("a fresh request after the pool was refilled failed: {e}"));
            }
        }
        Err(_) => {
            obs.v("c10-mock:caller-hang", format!("a fresh request after the refill did not complete within {LIVENESS:?}"));
            return Ok(obs);
        }
    }
    for s in stream_reuse(&cluster.log()) {
        obs.v("c10-mock:stream-id-reused-while-owed", s);
    }
    Ok(obs)
}

// ------------------------------------------------------------------------------------------------
// same-target retries
// ------------------------------------------------------------------------------------------------

#[derive(Debug, Default)]
struct Gate {
    open: std::sync::Mutex<bool>,
    cv: std::sync::Condvar,
    waits: std::sync::atomic::AtomicUsize,
    decisions: std::sync::atomic::AtomicUsize,
    timed_out: AtomicBool,
}
impl Gate {
    fn wait(&self) {
        self.waits.fetch_add(1, Ordering::SeqCst);
        let g = self.open.lock().unwrap();
        let (_g, t) = self.cv.wait_timeout_while(g, LIVENESS, |open| !*open).unwrap();
        if t.timed_out() {
            self.timed_out.store(true, Ordering::SeqCst);
        }
    }
    fn open(&self) {
        *self.open.lock().unwrap() = true;
        self.cv.notify_all();
    }
}
/// RetrySameTarget (at most 3 times per request) for a broken connection of an idempotent request, else DontRetry.
#[derive(Debug)]
struct SameTargetPolicy {
    gate: Arc<Gate>,
}
struct SameTargetSession {
    gate: Arc<Gate>,
    n: usize,
}
impl scylla::policies::retry::RetryPolicy for SameTargetPolicy {
    fn new_session(&self) -> Box<dyn scylla::policies::retry::RetrySession> {
        Box::new(SameTargetSession { gate: self.gate.clone(), n: 0 })
    }
}
impl scylla::policies::retry::RetrySession for SameTargetSession {
    fn decide_should_retry(&mut self, info: scylla::policies::retry::RequestInfo) -> scylla::policies::retry::RetryDecision {
        use scylla::policies::retry::RetryDecision;
        match info.error {
            scylla::errors::RequestAttemptError::BrokenConnectionError(_) if info.is_idempotent && self.n < 3 => {
                self.n += 1;
                self.gate.decisions.fetch_add(1, Ordering::SeqCst);
                // not before the pool has evicted the dead connection (the harness saw its replacement arrive)
                self.gate.wait();
                RetryDecision::RetrySameTarget(None)
            }
            _ => RetryDecision::DontRetry,
        }
    }
    fn reset(&mut self) {
        self.n = 0;
    }
}

#[derive(Clone, Debug)]
struct SameCase {
    pool: usize,
    kind: CloseKind,
    cut: Cut,
    k: usize,
    rep: usize,
}
impl SameCase {
    fn json(&self) -> Value {
        json!({"same_target": true, "pool": self.pool, "close": format!("{:?}", self.kind), "cut": self.cut.name(), "k": self.k, "rep": self.rep})
    }
    fn from_json(v: &Value) -> SameCase {
        SameCase {
            pool: v["pool"].as_u64().unwrap_or(2) as usize,
            kind: if v["close"].as_str() == Some("Fin") { CloseKind::Fin } else { CloseKind::Rst },
            cut: Cut::parse(v["cut"].as_str().unwrap_or("between")),
            k: v["k"].as_u64().unwrap_or(1) as usize,
            rep: v["rep"].as_u64().unwrap_or(0) as usize,
        }
    }
}

async fn run_same(case: &SameCase) -> Result<Obs, String> {
    let gate = Arc::new(Gate::default());
    let w = World::new(&WorldCfg { pool: case.pool, retry: Some(Arc::new(SameTargetPolicy { gate: gate.clone() })), ..WorldCfg::new(2) }).await?;
    let r = match drive_same(case, &w, &gate).await {
        Ok(obs) => {
            let unexpected = w.cluster.unexpected();
            if !unexpected.is_empty() {
                Err(format!("mock saw an unscripted request: {}", unexpected[0].describe()))
            } else if gate.timed_out.load(Ordering::SeqCst) {
                Err("the retry policy's gate was never opened".into())
            } else {
                Ok(obs)
            }
        }
        Err(e) => Err(format!("{e}\n{}", w.cluster.dump_log())),
    };
    gate.open();
    w.teardown().await;
    r
}

async fn drive_same(case: &SameCase, w: &World, gate: &Gate) -> Result<Obs, String> {
    let cluster = &w.cluster;
    let node_a = 1usize;
    let mut obs = Obs::default();
    // ---- the pool of A is complete on both sides: the mock has `pool` ready connections and each carried a request
    cluster.wait_conns("node A has its pool connections", LIVENESS, |cs| (cs.iter().filter(|c| c.node == node_a && c.ready && c.open).count() >= case.pool).then_some(())).await?;
    let deadline = tokio::time::Instant::now() + LIVENESS;
    let mut warm = FENCE_BASE;
    loop {
        w.fence(warm).await?;
        warm += 1;
        let used: BTreeSet<u64> = cluster.log().iter().filter(|e| e.node == node_a && entry_value(e).is_some()).map(|e| e.conn).collect();
        if used.len() >= case.pool {
            break;
        }
        if tokio::time::Instant::now() > deadline {
            return Err(format!("warm-up requests used only {} of A's {} pool connections", used.len(), case.pool));
        }
        tokio::task::yield_now().await;
    }
    let last_conn_before = cluster.conns().iter().map(|c| c.id).max().unwrap_or(0);
    let rule = cluster.hold(move |a| a.node == node_a && action_value(a).map(|v| v < FENCE_BASE).unwrap_or(false) && matches!(a.reply(), Some(Reply::Frame(_))));

    let callers: Vec<JoinHandle<Outcome>> = (0..case.k).map(|i| tokio::spawn(w.call(i as i32, true))).collect();
    let parked = cluster.wait_held_count(&format!("{} responses parked on node A", case.k), case.k, |a| action_value(a).map(|v| (v as usize) < case.k).unwrap_or(false)).await?;
    let a0 = parked.iter().find(|a| action_value(a) == Some(0)).cloned().ok_or("request 0 not parked")?;
    let victim = a0.conn;
    let pool_conns: Vec<u64> = cluster.open_conns(Some(node_a)).iter().map(|c| c.id).collect();
    obs.flag(if pool_conns.iter().min() == Some(&victim) { "victim_is_the_older_pool_connection" } else { "victim_is_the_younger_pool_connection" });
    let on_victim: Vec<usize> = parked.iter().filter(|a| a.conn == victim).filter_map(|a| action_value(a)).map(|v| v as usize).collect();
    cluster.unhold(rule); // retried attempts are answered at once

    // ---- the fault
    let env = a0.reply().and_then(|r| r.envelope()).cloned().ok_or("parked reply without a frame")?;
    if a0.request().and_then(|f| f.request.params()).map(|p| p.skip_metadata).unwrap_or(true) {
        return Err("request asks to skip metadata: the harness cannot predict the frame length".into());
    }
    let len = env.encode_frame(a0.request().unwrap().stream).len();
    let off = case.cut.offset(len);
    cluster.release_with(a0.id, Reply::CutFrame { env, bytes: off, then: case.kind });
    obs.trace.push(format!("{off} of {len} bytes of the response to 0 on connection {victim}, then {:?}; {} request(s) in flight on it", case.kind, on_victim.len()));

    // ---- the pool evicted the dead connection: its replacement shows up at the mock; only then may the policy answer
    if cluster.wait_conns("node A has a replacement connection", LIVENESS, |cs| cs.iter().any(|c| c.node == node_a && c.id > last_conn_before && c.ready && c.open).then_some(())).await.is_err() {
        gate.open();
        obs.v("c10-mock:pool-not-refilled", format!("node A got no new connection within {LIVENESS:?} after a pool connection died"));
        return Ok(obs);
    }
    gate.open();
    for a in parked.iter().filter(|a| a.conn != victim) {
        w.release_in_order(a).await?;
    }

    // ---- every caller completes; the retried ones on a live connection of the same node
    let mut outcomes = Vec::new();
    for (i, h) in callers.into_iter().enumerate() {
        match finish(h).await {
            Ok(o) => outcomes.push(o),
            Err(()) => {
                obs.v("c10-mock:caller-hang", format!("request {i} did not complete within {LIVENESS:?} after its connection died (retry-same-target policy, pool of {})", case.pool));
                return Ok(obs);
            }
        }
    }
    let log = cluster.log();
    for (i, o) in outcomes.iter().enumerate() {
        let v = i as i32;
        let sent_by = answered_by(&log, v);
        let retried_on_live_a = log.iter().any(|e| entry_value(e) == Some(v) && e.node == node_a && e.conn != victim);
        match o {
            Ok(rows) => match sent_by.iter().copied().find(|n| *rows == expected_rows(*n, v)) {
                Some(n) => obs.flag(if n == node_a { "ok_from_the_same_node" } else { "ok_from_the_next_node" }),
                None => obs.v("c10-mock:foreign-or-partial-rows", format!("request {i} completed Ok with rows {rows:?}, which no node sent completely for that request (complete responses came from nodes {sent_by:?})")),
            },
            Err(e) => {
                obs.inflight_failed += 1;
                if case.pool >= 2 && on_victim.contains(&i) {
                    obs.v(
                        "c10-mock:same-target-retry-not-on-a-live-connection",
                        format!("request {i} failed although its node still had a live pool connection when the policy answered RetrySameTarget (the dead connection had already been evicted: its replacement had arrived); retried frames seen on a live connection of the node: {retried_on_live_a}; error: {e}"),
                    );
                } else if !on_victim.contains(&i) {
                    obs.v("c10-mock:session-not-working", format!("request {i} on an untouched connection failed: {e}"));
                } else {
                    obs.flag("pool_of_one_retry_failed");
                }
            }
        }
        if on_victim.contains(&i) && o.is_ok() {
            if retried_on_live_a {
                obs.flag("retry_arrived_on_a_live_connection_of_the_same_node");
            } else if case.pool >= 2 {
                obs.v("c10-mock:same-target-retry-not-on-a-live-connection", format!("request {i} completed Ok but no retried frame reached a live connection of its node"));
            }
        }
    }
    match tokio::time::timeout(LIVENESS, w.call(warm + 100, true)).await {
        Ok(Ok(_)) => {}
        Ok(Err(e)) => obs.v("c10-mock:session-not-working", format!("a fresh idempotent request after the fault failed: {e}")),
        Err(_) => obs.v("c10-mock:caller-hang", format!("a fresh request after the fault did not complete within {LIVENESS:?}")),
    }
    for s in stream_reuse(&cluster.log()) {
        obs.v("c10-mock:stream-id-reused-while-owed", s);
    }
    Ok(obs)
}

fn run_same_blocking(case: &SameCase) -> Result<Obs, String> {
    // the policy's decision waits on a condvar inside a worker thread: leave workers for the mock and the pool
    let rt = runtime_n(2 + case.k.max(2));
    let r = guarded(|| rt.block_on(run_same(case)));
    rt.shutdown_timeout(Duration::from_millis(200));
    r
}

fn same_cases(thorough: bool) -> Vec<SameCase> {
    let mut out = Vec::new();
    // which connection of a pool of 2 a request takes is the driver's random choice: repeated (sampled)
    for rep in 0..if thorough { 10 } else { 4 } {
        for pool in [2usize, 1] {
            for k in [1usize, 2] {
                for kind in [CloseKind::Fin, CloseKind::Rst] {
                    for cut in [Cut::Between, Cut::Header(4), Cut::BodyMid] {
                        out.push(SameCase { pool, kind, cut, k, rep });
                    }
                }
            }
        }
    }
    out
}

// ------------------------------------------------------------------------------------------------
// sharded node: surviving-shard subsets x requested shard
// ------------------------------------------------------------------------------------------------

#[derive(Clone, Debug)]
struct ShardCase {
    nr: u16,
    /// bit i = the connection of shard i survives
    alive: u32,
    requested: u16,
}
impl ShardCase {
    fn json(&self) -> Value {
        json!({"sharded": true, "nr_shards": self.nr, "alive_mask": self.alive, "alive_shards": (0..self.nr).filter(|i| self.alive & (1 << i) != 0).collect::<Vec<_>>(), "requested_shard": self.requested})
    }
    fn from_json(v: &Value) -> ShardCase {
        ShardCase { nr: v["nr_shards"].as_u64().unwrap_or(2) as u16, alive: v["alive_mask"].as_u64().unwrap_or(1) as u32, requested: v["requested_shard"].as_u64().unwrap_or(0) as u16 }
    }
}

async fn run_sharded(case: &ShardCase) -> Result<Obs, String> {
    let w = World::new(&WorldCfg { shards: Some(case.nr), ..WorldCfg::new(1) }).await?;
    let r = match drive_sharded(case, &w).await {
        Ok(obs) => {
            let unexpected = w.cluster.unexpected();
            if !unexpected.is_empty() { Err(format!("mock saw an unscripted request: {}", unexpected[0].describe())) } else { Ok(obs) }
        }
        Err(e) => Err(format!("{e}\n{}", w.cluster.dump_log())),
    };
    w.teardown().await;
    r
}

async fn drive_sharded(case: &ShardCase, w: &World) -> Result<Obs, String> {
    let cluster = &w.cluster;
    let nr = case.nr;
    let mut obs = Obs::default();
    let pool_conns = |cs: &[mockcluster::ConnInfo]| -> Vec<(u64, u16)> { cs.iter().filter(|c| c.ready && c.open && c.registered.is_empty()).filter_map(|c| c.shard.map(|s| (c.id, s))).collect() };
    // ---- the pool is complete: exactly one ready pool connection per shard (excess ones from the plain port closed)
    cluster
        .wait_conns("one pool connection per shard", LIVENESS, |cs| {
            let pc = pool_conns(cs);
            (pc.len() == nr as usize && (0..nr).all(|s| pc.iter().any(|(_, x)| *x == s))).then_some(())
        })
        .await?;
    // ---- one bound value per shard, learnt by observation (the driver's token-aware routing with every shard connected);
    //      also proves the driver has registered every pool connection
    let mut value_of_shard: Vec<Option<i32>> = vec![None; nr as usize];
    let mut v = FENCE_BASE;
    while value_of_shard.iter().any(|x| x.is_none()) {
        let from = cluster.log_len();
        w.fence(v).await?;
        let e = cluster.wait_entry("discovery frame", from, |e| entry_value(e) == Some(v)).await?;
        let s = e.shard.ok_or("frame on a connection without a shard")? as usize;
        if value_of_shard[s].is_none() {
            value_of_shard[s] = Some(v);
        }
        v += 1;
        if v > FENCE_BASE + 2000 {
            return Err(format!("no bound value found for some shard: {value_of_shard:?}"));
        }
    }
    // ---- no refill from now on: new connections stay parked at accept
    cluster.hold(|a| a.is_accept());
    let conns = pool_conns(&cluster.conns());
    let doomed: Vec<(u64, u16)> = conns.iter().copied().filter(|(_, s)| case.alive & (1 << s) == 0).collect();
    for (id, _) in &doomed {
        if !cluster.close_conn(*id, CloseKind::Rst).await {
            return Err(format!("connection {id} was already gone"));
        }
    }
    obs.trace.push(format!("RST the connections of shards {:?}", doomed.iter().map(|(_, s)| *s).collect::<Vec<_>>()));
    // ---- the pool has evicted every dead connection: it has as many replacements pending as connections died
    if !doomed.is_empty() {
        cluster.wait_held_count(&format!("{} replacement connections pending at accept", doomed.len()), doomed.len(), |a| a.is_accept()).await?;
    }
    // ---- the request routed to the requested shard is served over a surviving connection
    let value = value_of_shard[case.requested as usize].unwrap();
    let mut last_err = None;
    let mut served = false;
    for attempt in 0..3 {
        let from = cluster.log_len();
        let o = match finish(tokio::spawn(w.call(value, true))).await {
            Ok(o) => o,
            Err(()) => {
                obs.v("c10-mock:caller-hang", format!("a request routed to shard {} did not complete within {LIVENESS:?} (surviving shards mask {:#b})", case.requested, case.alive));
                return Ok(obs);
            }
        };
        match o {
            Ok(rows) => {
                if rows != expected_rows(0, value) {
                    obs.v("c10-mock:foreign-or-partial-rows", format!("request completed Ok with rows {rows:?}"));
                }
                let e = cluster.wait_entry("the served frame", from, |e| entry_value(e) == Some(value)).await?;
                let s = e.shard.unwrap_or(u16::MAX);
                if case.alive & (1 << s) == 0 {
                    return Err(format!("frame arrived on shard {s}, whose connection was reset"));
                }
                obs.flag(if s == case.requested { "served_by_the_requested_shard" } else { "served_by_another_surviving_shard" });
                if attempt > 0 {
                    obs.flag("served_after_an_attempt_on_a_not_yet_evicted_connection");
                }
                served = true;
                break;
            }
            Err(e) if e.contains("abnormally") => {
                obs.v("c10-mock:panic-choosing-a-connection", format!("a request routed to shard {} of a {nr}-shard node whose surviving pool connections are in shards mask {:#b} panicked instead of using a remaining connection: {e}", case.requested, case.alive));
                return Ok(obs);
            }
            Err(e) => {
                last_err = Some(e);
                tokio::task::yield_now().await;
            }
        }
    }
    if !served {
        obs.inflight_failed += 1;
        obs.v("c10-mock:not-served-by-remaining-connections", format!("a request routed to shard {} failed 3 times although shards mask {:#b} still have live pool connections: {}", case.requested, case.alive, last_err.unwrap_or_default()));
    }
    Ok(obs)
}

fn run_sharded_blocking(case: &ShardCase) -> Result<Obs, String> {
    let rt = runtime();
    let r = guarded(|| rt.block_on(run_sharded(case)));
    rt.shutdown_timeout(Duration::from_millis(200));
    r
}

/// A panic of driver code on the harness's own thread (session build, prepare: everything the harness awaits without
/// spawning) is the caller panicking: a verdict, not a crash of the checker. A panic raised by harness or mock code is
/// a machinery error.
fn guarded(f: impl FnOnce() -> Result<Obs, String>) -> Result<Obs, String> {
    match vcore::catch(std::panic::AssertUnwindSafe(f)) {
        Ok(r) => r,
        Err(msg) => {
            let loc = vcore::last_panic_location();
            if loc.contains("h-mock") || loc.contains("mockcluster") || loc.contains("vcore") {
                vcore::machinery_error(&format!("harness panic at {loc}: {msg}"));
            }
            let mut obs = Obs::default();
            obs.v("c10-mock:panic-in-the-caller", format!("driver code panicked in the calling task at {}: {msg}", loc.rsplit("/scylla").next().map(|t| format!("scylla{t}")).unwrap_or(loc.clone())));
            Ok(obs)
        }
    }
}

fn shard_cases() -> Vec<ShardCase> {
    let mut out = Vec::new();
    for nr in 2..=4u16 {
        for alive in 1..(1u32 << nr) {
            for requested in 0..nr {
                out.push(ShardCase { nr, alive, requested });
            }
        }
    }
    out
}

fn run_blocking(case: &Case) -> Result<Obs, String> {
    let rt = runtime();
    let r = guarded(|| rt.block_on(run(case)));
    rt.shutdown_timeout(Duration::from_millis(200));
    r
}

fn idem_patterns(k: usize, all: bool) -> Vec<Vec<bool>> {
    let every: Vec<Vec<bool>> = (0..(1u32 << k)).map(|m| (0..k).map(|i| m & (1 << i) != 0).collect()).collect();
    if all || k < 3 {
        return every;
    }
    // quick, k = 3: nobody, everybody, and the two alternating patterns (keeps the quick tier < 60 s on 2 cores)
    vec![vec![false; 3], vec![true; 3], vec![true, false, true], vec![false, true, false]]
}

fn cases(thorough: bool) -> Vec<Case> {
    let mut out = Vec::new();
    let raw_kinds: Vec<RawKind> = RawKind::all().to_vec();
    let before_reps = if thorough { 8 } else { 3 };
    for ctrl in if thorough { vec![false, true] } else { vec![false] } {
    for k in 1..=3usize {
        for idem in idem_patterns(k, thorough) {
            // after all requests were parked
            for answered in 0..k {
                for answer_last in if thorough && answered > 0 { vec![false, true] } else { vec![false] } {
                    for kind in [CloseKind::Fin, CloseKind::Rst] {
                        for cut in Cut::all() {
                            out.push(Case { idem: idem.clone(), answered, answer_last, fault: Fault::Close(kind, cut), timing: Timing::After, rep: 0, ctrl });
                        }
                    }
                    for rk in &raw_kinds {
                        if *rk == RawKind::AnsweredStreamAgain && answered == 0 {
                            continue; // needs a stream this run answered and nobody re-used
                        }
                        out.push(Case { idem: idem.clone(), answered, answer_last, fault: Fault::Raw(*rk), timing: Timing::After, rep: 0, ctrl });
                    }
                    out.push(Case { idem: idem.clone(), answered, answer_last, fault: Fault::Stall, timing: Timing::After, rep: 0, ctrl });
                }
            }
            // as the reaction to the first arriving request
            for kind in [CloseKind::Fin, CloseKind::Rst] {
                for cut in Cut::all() {
                    out.push(Case { idem: idem.clone(), answered: 0, answer_last: false, fault: Fault::Close(kind, cut), timing: Timing::OnFirst, rep: 0, ctrl });
                }
            }
            for rk in [RawKind::Garbage, RawKind::Version3, RawKind::UnsolicitedStream] {
                out.push(Case { idem: idem.clone(), answered: 0, answer_last: false, fault: Fault::Raw(rk), timing: Timing::OnFirst, rep: 0, ctrl });
            }
            // before any request is issued: which of {client notices, request is submitted, pool evicts} comes first
            // is the client's own race, so these few cases are repeated (sampled dimension)
            for rep in 0..before_reps {
                for kind in [CloseKind::Fin, CloseKind::Rst] {
                    out.push(Case { idem: idem.clone(), answered: 0, answer_last: false, fault: Fault::Close(kind, Cut::Between), timing: Timing::Before, rep, ctrl });
                }
                for rk in [RawKind::Garbage, RawKind::Version3, RawKind::UnsolicitedStream] {
                    out.push(Case { idem: idem.clone(), answered: 0, answer_last: false, fault: Fault::Raw(rk), timing: Timing::Before, rep, ctrl });
                }
            }
        }
    }
    }
    out
}

fn main() {
    let r = Report::new("C10", "mock", "fault_enumeration", "E-MOCK");
    if std::env::var("VERIF_PANIC_VERBOSE").is_err() {
        vcore::quiet_panics();
    }
    if let Some(case) = r.replay_case() {
        let res = if case.get("sharded").is_some() { run_sharded_blocking(&ShardCase::from_json(&case)) } else if case.get("same_target").is_some() { run_same_blocking(&SameCase::from_json(&case)) } else { run_blocking(&Case::from_json(&case)) };
        match res {
            Ok(obs) => {
                println!("trace: {:?}\nflags: {:?}\ndisturbed: {}", obs.trace, obs.flags, obs.disturbed);
                for (k, w) in obs.violations {
                    r.violation(&k, &w, case.clone());
                }
            }
            Err(e) => vcore::machinery_error(&e),
        }
        r.finish_replay();
    }
    let mut all = cases(r.tier().is_thorough());
    // `--only-early-raw N`: triage aid - only the raw-byte faults with timings Before / OnFirst, each N times
    if let Some(n) = r.args.extra_value("--only-early-raw").and_then(|s| s.parse::<usize>().ok()) {
        let sel: Vec<Case> = all.iter().filter(|c| matches!(c.fault, Fault::Raw(_)) && c.timing != Timing::After && c.rep == 0).cloned().collect();
        all = (0..n).flat_map(|rep| sel.iter().cloned().map(move |mut c| { c.rep = rep; c })).collect();
    }
    let stop = AtomicBool::new(false);
    let jobs = r.args.jobs.min(16);
    let rr = &r;
    let classes = std::sync::Mutex::new(BTreeSet::new());
    vcore::par::for_range(jobs, all.len() as u64, |i| {
        if stop.load(Ordering::Relaxed) {
            rr.counters.add("cases_skipped_after_first_violation", 1);
            return;
        }
        let case = &all[i as usize];
        let mut out = run_blocking(case);
        // a harness-side deadline, or a run disturbed by a spurious keep-alive timeout, is re-run once
        let again = match &out {
            Err(_) => true,
            Ok(o) => o.disturbed && o.violations.is_empty(),
        };
        if again {
            let second = run_blocking(case);
            out = match (out, second) {
                (Err(e), Err(e2)) => Err(format!("{e}\n--- again: {e2}")),
                (Err(_), ok) => {
                    rr.counters.add("stalls_not_reproduced", 1);
                    ok
                }
                (Ok(_), Ok(o2)) => Ok(o2),
                (ok, Err(_)) => ok,
            };
        }
        match out {
            Ok(obs) => {
                rr.eval(1);
                if obs.disturbed {
                    rr.counters.add("runs_disturbed_by_a_spurious_close_no_retry_verdict", 1);
                }
                if obs.inflight_failed > 0 && case.rep == 0 {
                    rr.nontrivial(1);
                }
                rr.counters.add(&format!("fault_{}", case.fault_class()), 1);
                rr.counters.add(&format!("timing_{:?}", case.timing).to_lowercase(), 1);
                for f in &obs.flags {
                    rr.counters.add(f, 1);
                }
                classes.lock().unwrap().insert(format!("{}|{:?}|{:?}", case.fault_class(), case.timing, obs.flags.iter().collect::<BTreeSet<_>>()));
                if !obs.violations.is_empty() {
                    stop.store(true, Ordering::Relaxed);
                }
                for (k, w) in obs.violations {
                    rr.violation(&k, &format!("{w} [case {}; steps {:?}]", case.json(), obs.trace), case.json());
                }
                if i % 211 == 0 {
                    rr.sample(json!({"case": case.json(), "steps": obs.trace, "flags": obs.flags}));
                }
            }
            Err(e) => {
                rr.eval(1);
                stop.store(true, Ordering::Relaxed);
                let first = e.lines().next().unwrap_or("").to_string();
                eprintln!("STALL case {}:\n{e}", case.json());
                rr.violation("c10-mock:stall", &format!("run stalled twice: {first} [case {}]", case.json()), case.json());
            }
        }
    });
    // ---- second part: retry-same-target policy, pools of 2 and 1
    let same = if r.args.extra_value("--only-early-raw").is_some() { Vec::new() } else { same_cases(r.tier().is_thorough()) };
    vcore::par::for_range(jobs, same.len() as u64, |i| {
        if stop.load(Ordering::Relaxed) {
            rr.counters.add("cases_skipped_after_first_violation", 1);
            return;
        }
        let case = &same[i as usize];
        let out = match run_same_blocking(case) {
            Err(e) => match run_same_blocking(case) {
                Err(e2) => Err(format!("{e}\n--- again: {e2}")),
                ok => {
                    rr.counters.add("stalls_not_reproduced", 1);
                    ok
                }
            },
            ok => ok,
        };
        match out {
            Ok(obs) => {
                rr.eval(1);
                if case.rep == 0 {
                    rr.nontrivial(1);
                }
                rr.counters.add(&format!("same_target_pool_of_{}", case.pool), 1);
                for f in &obs.flags {
                    rr.counters.add(&format!("same_target_{f}"), 1);
                }
                classes.lock().unwrap().insert(format!("same-target|{}|{:?}", case.pool, obs.flags.iter().collect::<BTreeSet<_>>()));
                if !obs.violations.is_empty() {
                    stop.store(true, Ordering::Relaxed);
                }
                for (k, w) in obs.violations {
                    rr.violation(&k, &format!("{w} [case {}; steps {:?}]", case.json(), obs.trace), case.json());
                }
                if i == 0 {
                    rr.sample(json!({"case": case.json(), "steps": obs.trace, "flags": obs.flags}));
                }
            }
            Err(e) => {
                rr.eval(1);
                stop.store(true, Ordering::Relaxed);
                let first = e.lines().next().unwrap_or("").to_string();
                eprintln!("STALL case {}:\n{e}", case.json());
                rr.violation("c10-mock:stall", &format!("run stalled twice: {first} [case {}]", case.json()), case.json());
            }
        }
    });
    // ---- third part: sharded node, surviving-shard subsets x requested shard
    let sharded = if r.args.extra_value("--only-early-raw").is_some() { Vec::new() } else { shard_cases() };
    vcore::par::for_range(jobs, sharded.len() as u64, |i| {
        if stop.load(Ordering::Relaxed) {
            rr.counters.add("cases_skipped_after_first_violation", 1);
            return;
        }
        let case = &sharded[i as usize];
        let out = match run_sharded_blocking(case) {
            Err(e) => match run_sharded_blocking(case) {
                Err(e2) => Err(format!("{e}\n--- again: {e2}")),
                ok => {
                    rr.counters.add("stalls_not_reproduced", 1);
                    ok
                }
            },
            ok => ok,
        };
        match out {
            Ok(obs) => {
                rr.eval(1);
                if case.alive & (1 << case.requested) == 0 {
                    rr.nontrivial(1);
                    rr.counters.add("sharded_requested_shard_has_no_connection", 1);
                }
                rr.counters.add(&format!("sharded_{}_shards", case.nr), 1);
                for f in &obs.flags {
                    rr.counters.add(&format!("sharded_{f}"), 1);
                }
                classes.lock().unwrap().insert(format!("sharded|{:?}", obs.flags.iter().collect::<BTreeSet<_>>()));
                if !obs.violations.is_empty() {
                    stop.store(true, Ordering::Relaxed);
                }
                for (k, w) in obs.violations {
                    rr.violation(&k, &format!("{w} [case {}; steps {:?}]", case.json(), obs.trace), case.json());
                }
                if i == 7 {
                    rr.sample(json!({"case": case.json(), "steps": obs.trace, "flags": obs.flags}));
                }
            }
            Err(e) => {
                rr.eval(1);
                stop.store(true, Ordering::Relaxed);
                let first = e.lines().next().unwrap_or("").to_string();
                eprintln!("STALL case {}:\n{e}", case.json());
                rr.violation("c10-mock:stall", &format!("run stalled twice: {first} [case {}]", case.json()), case.json());
            }
        }
    });
    r.note("sharded_cases", json!(sharded.len()));
    r.note("same_target_cases", json!(same.len()));
    r.note("cases", json!(all.len()));
    r.note("distinct_fault_timing_outcome_classes", json!(classes.lock().unwrap().len()));
    r.note("keepalive_ms", json!([KEEPALIVE_INTERVAL.as_millis() as u64, KEEPALIVE_TIMEOUT.as_millis() as u64]));
    r.set_exhaustive(r.counters.get("cases_skipped_after_first_violation") == 0);
    r.set_rule("runs in which at least one in-flight request was failed by the dying connection (distinct (idempotence pattern, answered prefix, fault, timing) tuples)");
    r.assume("client-internal task scheduling is whatever the OS produces (engine E-MOCK); whether the bytes written before an RST are still read by the client is the kernel's choice, so a completely answered request may complete Ok or fail");
    r.assume("sharded part: refills are parked at accept; 'the pool evicted the dead connections' is inferred from as many replacement connections pending as connections were reset; a non-panic error is retried up to 3 times before it counts (a not-yet-evicted connection would be the harness's timing, not a defect)");
    r.assume("same-target part: which connection of a pool of 2 carries request 0 is the driver's random choice (4 / 10 repetitions; counters victim_is_the_older/younger_pool_connection); the policy's first decision is held until the pool's replacement connection reached the mock, so the dead connection is no longer offered by the pool when the retry picks a connection");
    r.assume("no client-side request timeout; default retry policy, default load balancing (token-aware, plan [A, B]); pool of one connection per node; all 2^k idempotence patterns per k (quick, k = 3: the 4 patterns FFF, TTT, TFT, FTF); thorough also answers the LAST j requests and also makes A the contact point / control-connection node; the before-timing is repeated 3 (quick) / 8 (thorough) times because its outcome depends on the client's own race (sampled)");
    if classes.lock().unwrap().len() < 4 && r.violation_count() == 0 {
        vcore::machinery_error("vacuous: fewer than 4 distinct (fault, timing, outcome) classes");
    }
    r.finish();
}
