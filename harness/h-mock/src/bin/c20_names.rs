//! C20 leg `names` (E-ENUM through the real Session::use_keyspace against a recording mock).
//! Every candidate name x both case-sensitivity settings is passed to `Session::use_keyspace`; oracle =
//! cqlref::ksname: a rejected name causes NO frame at all, an accepted name appears in exactly `USE name` /
//! `USE "name"` once per pool connection, nothing else is sent; a server answer naming another keyspace is an error.
use mockcluster::wire::{Opcode, Request, Response};
use mockcluster::{MockCluster, NodeSpec, Reply};
use scylla::client::session::Session;
use scylla::client::session_builder::SessionBuilder;
use scylla::errors::UseKeyspaceError;
use serde_json::{Value, json};
use std::collections::BTreeSet;
use std::sync::Arc;
use std::time::Duration;
use vcore::Report;

const ALPHABET: [&str; 14] = ["a", "z", "Z", "0", "_", " ", "\"", "'", ";", "-", ".", "\0", "\u{e9}", "\u{1F600}"];
const ILLEGAL: [&str; 9] = [" ", "\"", "'", ";", "-", ".", "\0", "\u{e9}", "\u{1F600}"];
const LEGAL_FILL: &[u8] = b"abcXYZ_019";

#[derive(Clone, Debug)]
struct Case {
    name: String,
    case_sensitive: bool,
    /// Some(x): the mock answers the USE with SetKeyspace(x) instead of the resolved name
    server_answers: Option<String>,
}
impl Case {
    fn json(&self) -> Value {
        json!({"leg": "names", "name": self.name, "case_sensitive": self.case_sensitive, "server_answers": self.server_answers})
    }
}

fn legal_string(len: usize) -> String {
    (0..len).map(|i| LEGAL_FILL[i % LEGAL_FILL.len()] as char).collect()
}

fn cases(thorough: bool) -> Vec<Case> {
    let mut names: Vec<String> = Vec::new();
    // all strings of length <= 3 over the alphabet (simplest first)
    names.push(String::new());
    for a in ALPHABET {
        names.push(a.to_string());
    }
    for a in ALPHABET {
        for b in ALPHABET {
            names.push(format!("{a}{b}"));
        }
    }
    for a in ALPHABET {
        for b in ALPHABET {
            for c in ALPHABET {
                names.push(format!("{a}{b}{c}"));
            }
        }
    }
    // lengths 0..60 of legal characters ...
    for len in 0..=60 {
        names.push(legal_string(len));
    }
    // far beyond the limit (lengths around the u8 / u16 boundaries of the wire format's length fields)
    for len in [64usize, 255, 256, 1000, 32767, 32768, 65535, 65536, 70000] {
        names.push(legal_string(len));
    }
    // ... with one illegal character at every position (thorough: every illegal symbol; quick: three of them per position, rotating)
    for len in 1..=60usize {
        for pos in 0..len {
            let base = legal_string(len);
            let picks: Vec<&str> = if thorough { ILLEGAL.to_vec() } else { (0..3).map(|k| ILLEGAL[(pos + len + 3 * k) % ILLEGAL.len()]).collect() };
            for ill in picks {
                let mut s = String::new();
                for (i, ch) in base.chars().enumerate() {
                    if i == pos {
                        s.push_str(ill);
                    } else {
                        s.push(ch);
                    }
                }
                names.push(s);
            }
        }
    }
    let mut seen = BTreeSet::new();
    let mut out = Vec::new();
    for n in names {
        if seen.insert(n.clone()) {
            for cs in [false, true] {
                out.push(Case { name: n.clone(), case_sensitive: cs, server_answers: None });
            }
        }
    }
    // server answers with a different keyspace name
    for n in ["a", "Ks", "_x", "abcdefghijklmnopqrstuvwxyzABCDEFGHIJKLMNOPQRSTUV"] {
        for cs in [false, true] {
            for ans in ["other", "a_", "k", ""] {
                if !ans.eq_ignore_ascii_case(n) {
                    out.push(Case { name: n.to_string(), case_sensitive: cs, server_answers: Some(ans.to_string()) });
                }
            }
        }
    }
    out
}

/// (key -> (case rank, text, case)): the smallest case per key is reported, whatever partition found it first.
static FOUND: std::sync::Mutex<std::collections::BTreeMap<String, (usize, String, Value)>> = std::sync::Mutex::new(std::collections::BTreeMap::new());
fn found(rank: usize, key: &str, what: &str, case: Value) {
    let mut g = FOUND.lock().unwrap();
    match g.get(key) {
        Some((r, _, _)) if *r <= rank => {}
        _ => {
            g.insert(key.to_string(), (rank, what.to_string(), case));
        }
    }
}

struct Env {
    cluster: MockCluster,
    session: Session,
    answer: Arc<std::sync::Mutex<Option<String>>>,
}

async fn setup() -> Env {
    let cluster = MockCluster::builder()
        .node(NodeSpec::new("dc1", "r1", vec![-100, 4000]))
        .node(NodeSpec::new("dc1", "r1", vec![0, 9000]))
        .accept_any_keyspace(true)
        .build()
        .await
        .unwrap_or_else(|e| vcore::machinery_error(&e));
    let answer: Arc<std::sync::Mutex<Option<String>>> = Arc::new(std::sync::Mutex::new(None));
    let a2 = answer.clone();
    cluster.handle(move |ctx| {
        if ctx.statement.as_deref().map(mockcluster::is_use).unwrap_or(false) {
            if let Some(x) = a2.lock().unwrap().clone() {
                return Some(Reply::response(Response::SetKeyspace(x)));
            }
        }
        None
    });
    let session = SessionBuilder::new().known_node(cluster.contact_point(0)).build().await.unwrap_or_else(|e| vcore::machinery_error(&format!("session: {e}")));
    // both pools up (1 connection each) before the first call
    cluster
        .wait_conns("2 pool connections ready", mockcluster::DEADLINE, |cs| (cs.iter().filter(|c| c.open && c.ready && c.registered.is_empty()).count() >= 2).then_some(()))
        .await
        .unwrap_or_else(|e| vcore::machinery_error(&e));
    let env = Env { cluster, session, answer };
    // the first accepted call must reach both pool connections; repeat until it does (pools publish asynchronously)
    let deadline = std::time::Instant::now() + mockcluster::DEADLINE;
    loop {
        let from = env.cluster.log_len();
        env.session.use_keyspace("warmup", false).await.unwrap_or_else(|e| vcore::machinery_error(&format!("warm-up USE failed: {e}")));
        let n = env.cluster.log_since(from).iter().filter(|e| e.is_stmt("USE warmup")).count();
        if n == 2 {
            break;
        }
        if std::time::Instant::now() > deadline {
            vcore::machinery_error("pools never both served a USE");
        }
        tokio::task::yield_now().await;
    }
    env
}

fn relevant(e: &mockcluster::LogEntry) -> bool {
    match e.frame() {
        None => false,
        Some(f) => f.statement.as_deref().map(mockcluster::is_use).unwrap_or(false) || e.is_user_frame() || matches!(f.opcode, Opcode::Other(_)),
    }
}

async fn check_one(r: &Report, env: &Env, rank: usize, c: &Case) {
    let from = env.cluster.log_len();
    *env.answer.lock().unwrap() = c.server_answers.clone();
    let res = env.session.use_keyspace(c.name.clone(), c.case_sensitive).await;
    *env.answer.lock().unwrap() = None;
    let frames: Vec<_> = env.cluster.log_since(from).into_iter().filter(|e| relevant(e)).collect();
    let valid = cqlref::ksname::is_valid(&c.name);
    r.eval(1);
    let shown: Vec<String> = frames.iter().map(|e| e.describe()).collect();
    if !valid {
        r.counters.add("rejected_by_reference", 1);
        if !frames.is_empty() {
            found(rank, 
                "names:frame-for-invalid-name",
                &format!("use_keyspace({:?}, {}) is not a keyspace identifier but {} frame(s) were sent: {shown:?}", c.name, c.case_sensitive, frames.len()),
                c.json(),
            );
            return;
        }
        match res {
            Err(UseKeyspaceError::BadKeyspaceName(_)) => r.counters.add("rejected_locally", 1),
            Err(e) => found(rank, "names:wrong-error", &format!("use_keyspace({:?}) failed with {e} instead of a bad-name error", c.name), c.json()),
            Ok(()) => found(rank, "names:invalid-accepted", &format!("use_keyspace({:?}, {}) returned Ok for an invalid identifier", c.name, c.case_sensitive), c.json()),
        }
        return;
    }
    r.counters.add("accepted_by_reference", 1);
    let want = cqlref::ksname::use_statement(&c.name, c.case_sensitive);
    let conns: BTreeSet<u64> = frames.iter().map(|e| e.conn).collect();
    let all_exact = frames.iter().all(|e| {
        let f = e.frame().unwrap();
        matches!(&f.request, Request::Query { text, params } if *text == want && params.values.is_empty() && params.names.is_none())
    });
    if frames.len() != 2 || conns.len() != 2 || !all_exact {
        found(rank, 
            "names:statement-text",
            &format!("use_keyspace({:?}, {}) must send exactly {want:?} once on each of the 2 pool connections; sent: {shown:?}", c.name, c.case_sensitive),
            c.json(),
        );
        return;
    }
    match (&c.server_answers, res) {
        (None, Ok(())) => {
            r.counters.add("accepted_and_acknowledged", 1);
            // bookkeeping of the mock agrees: both connections acknowledged the resolved name
            let resolved = cqlref::ksname::server_resolves_to(&c.name, c.case_sensitive);
            for id in &conns {
                if env.cluster.conn(*id).and_then(|ci| ci.keyspace) != Some(resolved.clone()) {
                    vcore::machinery_error(&format!("mock bookkeeping: connection {id} did not acknowledge {resolved:?}"));
                }
            }
        }
        (None, Err(e)) => found(rank, "names:valid-rejected", &format!("use_keyspace({:?}, {}) failed: {e}", c.name, c.case_sensitive), c.json()),
        (Some(ans), Ok(())) => found(rank, 
            "names:mismatch-accepted",
            &format!("server answered SetKeyspace({ans:?}) to {want:?} and use_keyspace returned Ok"),
            c.json(),
        ),
        (Some(_), Err(UseKeyspaceError::KeyspaceNameMismatch { .. })) => r.counters.add("mismatch_detected", 1),
        (Some(ans), Err(e)) => found(rank, "names:mismatch-wrong-error", &format!("server answered SetKeyspace({ans:?}); error was {e}"), c.json()),
    }
}

const PROBE: &str = "INSERT INTO t (id) VALUES (";

/// Other public ways to set the session keyspace: `SessionBuilder::use_keyspace` and raw `USE` statements through the
/// unpaged / single-page / iterator entry points. Same oracle: invalid names cause no frame; afterwards every request
/// arrives on a connection that acknowledged the keyspace a server resolves the name to (case-exact).
async fn check_entry_points(r: &Report, env: &Env) {
    env.cluster.script(mockcluster::Script::new(PROBE).prefix());
    let mut n = 0u64;
    // (a) builder
    let names = ["ks_b", "MyKs", "_", "abcdefghijklmnopqrstuvwxyzABCDEFGHIJKLMNOPQRSTUV", "", "a b", "a;", "a\"", "abcdefghijklmnopqrstuvwxyzABCDEFGHIJKLMNOPQRSTUVW", "\u{e9}"];
    for name in names {
        for cs in [false, true] {
            let case = json!({"leg": "names", "entry": "builder", "name": name, "case_sensitive": cs});
            let from = env.cluster.log_len();
            let built = SessionBuilder::new().known_node(env.cluster.contact_point(0)).use_keyspace(name, cs).build().await;
            r.eval(1);
            let valid = cqlref::ksname::is_valid(name);
            match (&built, valid) {
                (Err(_), false) => {
                    let frames: Vec<String> = env.cluster.log_since(from).iter().filter(|e| relevant(e)).map(|e| e.describe()).collect();
                    if !frames.is_empty() {
                        r.violation("names:builder-frame-for-invalid-name", &format!("SessionBuilder::use_keyspace({name:?}, {cs}): frames were sent: {frames:?}"), case);
                    }
                    r.counters.add("builder_rejected", 1);
                }
                (Ok(_), false) => r.violation("names:builder-invalid-accepted", &format!("SessionBuilder::use_keyspace({name:?}, {cs}) built a session"), case),
                (Err(e), true) => r.violation("names:builder-valid-rejected", &format!("SessionBuilder::use_keyspace({name:?}, {cs}) failed: {e}"), case),
                (Ok(sess), true) => {
                    let want_ks = cqlref::ksname::server_resolves_to(name, cs);
                    let want_stmt = cqlref::ksname::use_statement(name, cs);
                    let mark = env.cluster.log_len();
                    for _ in 0..8 {
                        let _ = sess.query_unpaged(format!("{PROBE}{n})"), ()).await;
                        n += 1;
                    }
                    let uses: Vec<String> = env.cluster.log_since(from).iter().filter(|e| e.statement().map(mockcluster::is_use).unwrap_or(false)).map(|e| e.statement().unwrap().to_string()).collect();
                    if uses.is_empty() || uses.iter().any(|u| *u != want_stmt) {
                        r.violation("names:builder-statement-text", &format!("SessionBuilder::use_keyspace({name:?}, {cs}) must send {want_stmt:?}; sent {uses:?}"), case.clone());
                    }
                    for e in env.cluster.log_since(mark).iter().filter(|e| e.is_stmt(PROBE)) {
                        if e.frame().unwrap().keyspace.as_deref() != Some(want_ks.as_str()) {
                            r.violation("names:builder-request-in-wrong-keyspace", &format!("session built with use_keyspace({name:?}, {cs}): request arrived on a connection that acknowledged {:?}, expected {want_ks:?}", e.frame().unwrap().keyspace), case.clone());
                        }
                    }
                    r.counters.add("builder_accepted", 1);
                }
            }
        }
    }
    // (b) raw statements through every query entry point of a fresh session
    for (how, text, want_ks) in [
        ("query_unpaged", "USE \"MyKs\"", "MyKs"),
        ("query_unpaged", "USE MyKs", "myks"),
        ("query_single_page", "USE \"MyKs\"", "MyKs"),
        ("query_single_page", "USE myks", "myks"),
        ("query_iter", "USE \"MyKs\"", "MyKs"),
        ("query_iter", "USE MyKs", "myks"),
    ] {
        let case = json!({"leg": "names", "entry": how, "statement": text});
        let sess = SessionBuilder::new().known_node(env.cluster.contact_point(0)).build().await.unwrap_or_else(|e| vcore::machinery_error(&format!("session: {e}")));
        env.cluster
            .wait_conns("fresh session has its 2 pool connections", mockcluster::DEADLINE, |cs| (cs.iter().filter(|c| c.open && c.ready && c.registered.is_empty()).count() >= 4).then_some(()))
            .await
            .unwrap_or_else(|e| vcore::machinery_error(&e));
        let ok = match how {
            "query_unpaged" => sess.query_unpaged(text, ()).await.is_ok(),
            "query_single_page" => sess.query_single_page(text, (), scylla::response::PagingState::start()).await.is_ok(),
            _ => sess.query_iter(text, ()).await.is_ok(),
        };
        r.eval(1);
        if !ok {
            r.violation("names:raw-use-failed", &format!("{how}({text:?}) failed"), case.clone());
            continue;
        }
        let mark = env.cluster.log_len();
        for _ in 0..12 {
            let _ = sess.query_unpaged(format!("{PROBE}{n})"), ()).await;
            n += 1;
        }
        let mut conns = BTreeSet::new();
        for e in env.cluster.log_since(mark).iter().filter(|e| e.is_stmt(PROBE)) {
            conns.insert(e.conn);
            if e.frame().unwrap().keyspace.as_deref() != Some(want_ks) {
                r.violation("names:raw-use-request-in-wrong-keyspace", &format!("after {how}({text:?}) returned Ok a request arrived on a connection that acknowledged {:?}, expected {want_ks:?}", e.frame().unwrap().keyspace), case.clone());
            }
        }
        r.counters.add("raw_use_entry_points_checked", 1);
        r.counters.max("raw_use_connections_seen", conns.len() as u64);
        // this session's connections go away (client closes), the shared one stays
        drop(sess);
        env.cluster
            .wait_conns("fresh session's connections are closed", mockcluster::DEADLINE, |cs| (cs.iter().filter(|c| c.open && c.registered.is_empty()).count() <= 2).then_some(()))
            .await
            .unwrap_or_else(|e| vcore::machinery_error(&e));
    }
}

fn run_partition(r: &Report, part: Vec<(usize, Case)>) {
    let rt = tokio::runtime::Builder::new_multi_thread().worker_threads(2).enable_all().build().unwrap();
    rt.block_on(async {
        let env = setup().await;
        for (rank, c) in &part {
            check_one(r, &env, *rank, c).await;
        }
        if part.first().map(|p| p.0) == Some(0) {
            check_entry_points(r, &env).await;
        }
        // stragglers: a frame sent without waiting for its answer would show up late
        let from = env.cluster.log_len();
        env.cluster.quiesce(Duration::from_millis(200)).await;
        let late: Vec<String> = env.cluster.log_since(from).iter().filter(|e| relevant(e)).map(|e| e.describe()).collect();
        if !late.is_empty() {
            r.violation("names:late-frame", &format!("frames arrived after all calls had returned: {late:?}"), json!({"leg":"names","late":late}));
        }
        let unexpected = env.cluster.unexpected();
        if !unexpected.is_empty() {
            r.violation("names:unexpected-request", &format!("mock saw an unscripted request: {}", unexpected[0].describe()), json!({"leg":"names"}));
        }
        env.cluster.shutdown().await;
        drop(env.session);
    });
}

fn main() {
    let r = Report::new("C20", "names", "model_checking", "E-ENUM");
    if let Err(e) = cqlref::ksname::self_test() {
        vcore::machinery_error(&e);
    }
    if let Some(case) = r.replay_case() {
        let c = Case {
            name: case["name"].as_str().unwrap_or("").to_string(),
            case_sensitive: case["case_sensitive"].as_bool().unwrap_or(false),
            server_answers: case["server_answers"].as_str().map(|s| s.to_string()),
        };
        println!("replaying use_keyspace({:?}, {}) server_answers={:?}", c.name, c.case_sensitive, c.server_answers);
        run_partition(&r, vec![(0, c)]);
        for (k, (_, w, c)) in FOUND.lock().unwrap().iter() {
            r.violation(k, w, c.clone());
        }
        r.finish_replay();
    }
    let all = cases(r.tier().is_thorough());
    let distinct_names: BTreeSet<&str> = all.iter().map(|c| c.name.as_str()).collect();
    r.note("distinct_names", json!(distinct_names.len()));
    r.note("cases", json!(all.len()));
    let valid_names = distinct_names.iter().filter(|n| cqlref::ksname::is_valid(n)).count();
    r.note("distinct_valid_names", json!(valid_names));
    r.nontrivial(all.iter().filter(|c| cqlref::ksname::is_valid(&c.name) || c.name.chars().count() >= 2).count() as u64);
    r.set_rule("cases whose name is accepted by the reference (a frame must appear, exactly rendered) or is rejected with at least 2 characters (legal context around an illegal character / over-long)");
    r.sample(all[0].json());
    r.sample(all[all.len() / 3].json());
    r.sample(all[all.len() / 2].json());
    r.sample(all[all.len() - 1].json());
    let parts = r.args.jobs.clamp(1, 8);
    let mut buckets: Vec<Vec<(usize, Case)>> = (0..parts).map(|_| Vec::new()).collect();
    for (i, c) in all.into_iter().enumerate() {
        buckets[i % parts].push((i, c));
    }
    let rr = &r;
    std::thread::scope(|s| {
        for b in buckets {
            s.spawn(move || run_partition(rr, b));
        }
    });
    for (k, (_, w, c)) in FOUND.lock().unwrap().iter() {
        r.violation(k, w, c.clone());
    }
    r.set_exhaustive(true);
    r.assume("names are Rust strings (valid UTF-8): the API takes impl Into<String>");
    r.assume("the mock accepts every syntactically plausible keyspace; 2 nodes x 1 pool connection");
    r.finish();
}
