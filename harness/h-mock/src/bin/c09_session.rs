//! C09 leg `session` (E-MOCK): what only the session sets. For every session-level entry point
//! (query_unpaged / query_single_page / query_iter / execute_unpaged / execute_single_page / execute_iter / batch) and
//! every CachingSession entry point (execute_unpaged / execute_single_page / execute_iter / batch / prepare_batch followed
//! by Session::batch; cache capacity 4 < 12 statement texts so hits and misses alternate)
//! and EVERY combination of the statement-level settings (page size, explicit timestamp, consistency source,
//! serial consistency, tracing, idempotence, use_cached_result_metadata, value shape, statement kind) under every
//! session configuration (metadata-id extension on/off x timestamp generator configured or not x default / custom
//! default execution profile) the frames the mock node RECEIVED - decoded by the mock's own wire parser
//! (`mockcluster::wire`, written from the protocol specification) - are compared field by field with an expectation
//! computed here from the caller's settings alone: statement text / prepared id, consistency, serial consistency,
//! page size, paging state (absent on the first page, the node's state on later pages), timestamp, skip-metadata flag,
//! result-metadata id, values in order, tracing flag in the header; and nothing else was sent.
use h_mock::sess::{self, RecordingGen};
use mockcluster::wire::{BatchStmt, ColType, Opcode, QueryParams, Request, Response, Val, col, val};
use mockcluster::{KeyspaceSpec, LogEntry, LogKind, MockCluster, NodeSpec, Script, TableSpec, paginate, prepared_id};
use scylla::client::execution_profile::{ExecutionProfile, ExecutionProfileHandle};
use scylla::client::caching_session::{CachingSession, CachingSessionBuilder};
use scylla::client::session::Session;
use scylla::client::session_builder::SessionBuilder;
use scylla::response::{PagingState, PagingStateResponse};
use scylla::serialize::row::SerializeRow;
use scylla::statement::batch::{Batch, BatchType};
use scylla::statement::prepared::PreparedStatement;
use scylla::statement::unprepared::Statement;
use scylla::statement::{Consistency, SerialConsistency};
use scylla::value::MaybeUnset;
use serde_json::{Value, json};
use std::collections::{BTreeSet, HashMap};
use std::sync::Arc;
use std::time::Duration;
use vcore::Report;

const GEN_BASE: i64 = 5_000_000_000_000;
const DEFAULT_PAGE_SIZE: i32 = 5000;
const TS_ALPHABET: [i64; 6] = [0, 1, -1, i64::MIN, i64::MAX, 1_700_000_000_000_000];
const A_ALPHABET: [i32; 6] = [0, 1, -1, i32::MIN, i32::MAX, 7];
const B_ALPHABET: [&str; 4] = ["", "x", "h\u{e9}llo \u{1F600}", "0123456789012345678901234567890123456789"];

#[derive(Clone, Copy, Debug, PartialEq, Eq, PartialOrd, Ord)]
enum Api {
    QueryUnpaged,
    QuerySinglePage,
    QueryIter,
    ExecUnpaged,
    ExecSinglePage,
    ExecIter,
    Batch,
    CacheExecUnpaged,
    CacheExecSinglePage,
    CacheExecIter,
    CacheBatch,
    CachePrepareBatch,
}
impl Api {
    const ALL: [Api; 12] = [
        Api::QueryUnpaged,
        Api::QuerySinglePage,
        Api::QueryIter,
        Api::ExecUnpaged,
        Api::ExecSinglePage,
        Api::ExecIter,
        Api::Batch,
        Api::CacheExecUnpaged,
        Api::CacheExecSinglePage,
        Api::CacheExecIter,
        Api::CacheBatch,
        Api::CachePrepareBatch,
    ];
    fn name(self) -> &'static str {
        match self {
            Api::QueryUnpaged => "query_unpaged",
            Api::QuerySinglePage => "query_single_page",
            Api::QueryIter => "query_iter",
            Api::ExecUnpaged => "execute_unpaged",
            Api::ExecSinglePage => "execute_single_page",
            Api::ExecIter => "execute_iter",
            Api::Batch => "batch",
            Api::CacheExecUnpaged => "caching.execute_unpaged",
            Api::CacheExecSinglePage => "caching.execute_single_page",
            Api::CacheExecIter => "caching.execute_iter",
            Api::CacheBatch => "caching.batch",
            Api::CachePrepareBatch => "caching.prepare_batch+batch",
        }
    }
    fn from_name(s: &str) -> Api {
        Api::ALL.into_iter().find(|a| a.name() == s).unwrap_or_else(|| vcore::machinery_error(&format!("unknown api {s}")))
    }
    fn is_query(self) -> bool {
        matches!(self, Api::QueryUnpaged | Api::QuerySinglePage | Api::QueryIter)
    }
    fn is_exec(self) -> bool {
        matches!(self, Api::ExecUnpaged | Api::ExecSinglePage | Api::ExecIter)
    }
    /// CachingSession entry points taking an unprepared Statement (prepared through the cache, then EXECUTEd)
    fn is_cache_exec(self) -> bool {
        matches!(self, Api::CacheExecUnpaged | Api::CacheExecSinglePage | Api::CacheExecIter)
    }
    fn is_cache(self) -> bool {
        self.is_cache_exec() || matches!(self, Api::CacheBatch | Api::CachePrepareBatch)
    }
    fn is_batch(self) -> bool {
        matches!(self, Api::Batch | Api::CacheBatch | Api::CachePrepareBatch)
    }
    fn is_iter(self) -> bool {
        matches!(self, Api::QueryIter | Api::ExecIter | Api::CacheExecIter)
    }
    fn is_unpaged(self) -> bool {
        matches!(self, Api::QueryUnpaged | Api::ExecUnpaged | Api::CacheExecUnpaged) || self.is_batch()
    }
}

#[derive(Clone, Copy, Debug, PartialEq, Eq, PartialOrd, Ord)]
struct SessCfg {
    /// the node offers SCYLLA_USE_METADATA_ID
    ext: bool,
    /// a TimestampGenerator is configured on the session
    generator: bool,
    /// the session's default execution profile is (TWO, SERIAL) instead of the driver default (LOCAL_QUORUM, LOCAL_SERIAL)
    custom_profile: bool,
}

#[derive(Clone, Debug)]
struct Case {
    cfg: SessCfg,
    api: Api,
    /// SELECT (result columns, 3 rows) or INSERT (no result columns)
    select: bool,
    /// 0 none | 1 (a) | 2 (a, b) | 3 (a, null) | 4 (a, unset)
    vals: u8,
    /// statement page size: 0 not set (driver default 5000) | 1 -> 1 | 2 -> 7
    page: u8,
    /// explicit statement timestamp
    ts: bool,
    /// 0 session default profile | 1 statement profile handle (EACH_QUORUM, no serial) | 2 set_consistency(x) | 3 handle + set_consistency(x)
    cons: u8,
    /// 0 not set | 1 set to None | 2 SERIAL | 3 LOCAL_SERIAL
    serial: u8,
    tracing: bool,
    idem: bool,
    cached: bool,
    /// batch only: 0 logged 1 unlogged 2 counter
    btype: u8,
    /// batch only: statement mix 0..6
    bmix: u8,
    /// the statements are conditional ones the node marks as LWT (PreparedStatement::is_confirmed_lwt)
    lwt: bool,
    /// rotates the value alphabets (timestamp, consistency, bound values)
    n: u64,
}
impl Case {
    fn json(&self) -> Value {
        json!({"leg":"session","ext":self.cfg.ext,"generator":self.cfg.generator,"custom_profile":self.cfg.custom_profile,"api":self.api.name(),"select":self.select,
            "vals":self.vals,"page":self.page,"ts":self.ts,"cons":self.cons,"serial":self.serial,"tracing":self.tracing,"idempotent":self.idem,"use_cached_result_metadata":self.cached,
            "batch_type":self.btype,"batch_mix":self.bmix,"lwt":self.lwt,"n":self.n})
    }
    fn from_json(v: &Value) -> Case {
        let b = |k: &str| v[k].as_bool().unwrap_or(false);
        let u = |k: &str| v[k].as_u64().unwrap_or(0);
        Case {
            cfg: SessCfg { ext: b("ext"), generator: b("generator"), custom_profile: b("custom_profile") },
            api: Api::from_name(v["api"].as_str().unwrap_or("")),
            select: b("select"),
            vals: u("vals") as u8,
            page: u("page") as u8,
            ts: b("ts"),
            cons: u("cons") as u8,
            serial: u("serial") as u8,
            tracing: b("tracing"),
            idem: b("idempotent"),
            cached: b("use_cached_result_metadata"),
            btype: u("batch_type") as u8,
            bmix: u("batch_mix") as u8,
            lwt: b("lwt"),
            n: u("n"),
        }
    }
    fn explicit_ts(&self) -> Option<i64> {
        self.ts.then(|| TS_ALPHABET[(self.n % 6) as usize])
    }
    fn cons_value(&self) -> Consistency {
        sess::ALL_CONSISTENCIES[(self.n % 11) as usize]
    }
    fn a(&self) -> i32 {
        A_ALPHABET[((self.n / 2) % 6) as usize]
    }
    fn b(&self) -> &'static str {
        B_ALPHABET[((self.n / 3) % 4) as usize]
    }
    fn page_size(&self) -> Option<i32> {
        match self.page {
            0 => None,
            1 => Some(1),
            _ => Some(7),
        }
    }
    fn markers(&self) -> usize {
        match self.vals {
            0 => 0,
            1 => 1,
            _ => 2,
        }
    }
    fn text(&self) -> &'static str {
        stmt_text(self.select, self.markers(), self.lwt)
    }
}

/// `lwt`: the conditional variant, which the node marks as LWT in its PREPARED answer (rows-returning ones stand in for the
/// `[applied]` result set of a conditional statement).
fn stmt_text(select: bool, markers: usize, lwt: bool) -> &'static str {
    if lwt {
        return match (select, markers) {
            (true, 0) => "UPDATE ks.t SET b = 'u' WHERE a = 1 IF EXISTS",
            (true, 1) => "UPDATE ks.t SET b = 'u' WHERE a = ? IF EXISTS",
            (true, _) => "UPDATE ks.t SET b = 'u' WHERE a = ? IF b = ?",
            (false, 0) => "INSERT INTO ks.t (a, b) VALUES (1, 'x') IF NOT EXISTS",
            (false, 1) => "INSERT INTO ks.t (a, b) VALUES (?, 'x') IF NOT EXISTS",
            (false, _) => "INSERT INTO ks.t (a, b) VALUES (?, ?) IF NOT EXISTS",
        };
    }
    match (select, markers) {
        (true, 0) => "SELECT a, b FROM ks.t",
        (true, 1) => "SELECT a, b FROM ks.t WHERE a = ?",
        (true, _) => "SELECT a, b FROM ks.t WHERE a = ? AND b = ? ALLOW FILTERING",
        (false, 0) => "INSERT INTO ks.t (a, b) VALUES (1, 'x')",
        (false, 1) => "INSERT INTO ks.t (a, b) VALUES (?, 'x')",
        (false, _) => "INSERT INTO ks.t (a, b) VALUES (?, ?)",
    }
}

/// Bound values as the caller passes them.
fn caller_values(vals: u8, a: i32, b: &str) -> Box<dyn SerializeRow + Send + Sync> {
    match vals {
        0 => Box::new(()),
        1 => Box::new((a,)),
        2 => Box::new((a, b.to_string())),
        3 => Box::new((a, None::<String>)),
        _ => Box::new((a, MaybeUnset::<String>::Unset)),
    }
}
/// The same values as CQL v4 `[value]`s (int: 4 bytes big endian; text: UTF-8; null; not set), from the specification.
fn wire_values(vals: u8, a: i32, b: &str) -> Vec<Val> {
    let av = Val::Bytes(a.to_be_bytes().to_vec());
    match vals {
        0 => vec![],
        1 => vec![av],
        2 => vec![av, Val::Bytes(b.as_bytes().to_vec())],
        3 => vec![av, Val::Null],
        _ => vec![av, Val::Unset],
    }
}

/// (statement kind, value shape) per batch statement: kind 'U' unprepared / 'P' prepared.
fn batch_mix(m: u8) -> Vec<(char, u8)> {
    match m {
        0 => vec![],
        1 => vec![('U', 0)],
        2 => vec![('P', 1)],
        3 => vec![('U', 0), ('P', 2)],
        4 => vec![('P', 3), ('U', 1)],
        5 => vec![('P', 1), ('P', 4), ('U', 0)],
        _ => vec![('U', 2), ('P', 0), ('U', 4)],
    }
}
const BATCH_MIXES: u8 = 7;

fn all_cases(cfg: SessCfg) -> Vec<Case> {
    let mut out = Vec::new();
    let mut n = 0u64;
    for api in Api::ALL {
        let selects: &[bool] = if api.is_batch() { &[false] } else if api.is_iter() { &[true] } else { &[true, false] };
        let vals: &[u8] = if api.is_batch() { &[0] } else { &[0, 1, 2, 3, 4] };
        let pages: &[u8] = if api.is_batch() { &[0] } else { &[0, 1, 2] };
        let cacheds: &[bool] = if api.is_exec() || api.is_cache_exec() { &[false, true] } else { &[false] };
        let shapes: Vec<(u8, u8)> = if api.is_batch() { (0..3).flat_map(|t| (0..BATCH_MIXES).map(move |m| (t, m))).collect() } else { vec![(0, 0)] };
        for &select in selects {
            for &(btype, bmix) in &shapes {
                for &vals in vals {
                    for &page in pages {
                        for ts in [false, true] {
                            for cons in 0..4u8 {
                                for serial in 0..4u8 {
                                    for tracing in [false, true] {
                                        // not on the wire: both values for the Session entry points, rotating for the CachingSession ones
                                        let idems: &[bool] = if api.is_cache() { if (cons + serial) % 2 == 0 { &[false] } else { &[true] } } else { &[false, true] };
                                        for &idem in idems {
                                            for &cached in cacheds {
                                                for lwt in [false, true] {
                                                    out.push(Case { cfg, api, select, vals, page, ts, cons, serial, tracing, idem, cached, btype, bmix, lwt, n });
                                                    n += 1;
                                                }
                                            }
                                        }
                                    }
                                }
                            }
                        }
                    }
                }
            }
        }
    }
    out
}

// ------------------------------------------------------------------------------------------------ expectation

#[derive(Clone, Debug, PartialEq)]
enum TsExp {
    Absent,
    Exact(i64),
    Generated,
    /// LWT-marked statement, generator configured, no explicit timestamp: neither C09 nor C18 says whether a generated
    /// timestamp is sent (the unchanged driver sends one); if present it must be one the generator handed out
    GeneratedOrAbsent,
}

struct Exp {
    consistency: u16,
    serial: Option<u16>,
    ts: TsExp,
}

fn expect_common(c: &Case) -> Exp {
    // profiles: driver default (LOCAL_QUORUM, LOCAL_SERIAL); custom session default (TWO, SERIAL); statement handle (EACH_QUORUM, none)
    let (sess_c, sess_s): (u16, Option<u16>) = if c.cfg.custom_profile { (0x0002, Some(0x0008)) } else { (0x0006, Some(0x0009)) };
    let (prof_c, prof_s) = if c.cons == 1 || c.cons == 3 { (0x0007, None) } else { (sess_c, sess_s) };
    let consistency = if c.cons >= 2 { sess::consistency_code(c.cons_value()) } else { prof_c };
    let serial = match c.serial {
        0 => prof_s,
        1 => None,
        2 => Some(0x0008),
        _ => Some(0x0009),
    };
    let ts = match (c.explicit_ts(), c.cfg.generator) {
        (Some(t), _) => TsExp::Exact(t),
        (None, true) if c.lwt => TsExp::GeneratedOrAbsent,
        (None, true) => TsExp::Generated,
        (None, false) => TsExp::Absent,
    };
    Exp { consistency, serial, ts }
}

fn describe_params(p: &QueryParams) -> String {
    format!(
        "consistency={} flags=0x{:02x} values={:?} skip_metadata={} page_size={:?} paging_state={:?} serial={:?} timestamp={:?}",
        sess::consistency_name(p.consistency),
        p.flags,
        p.values,
        p.skip_metadata,
        p.page_size,
        p.paging_state.as_ref().map(|b| String::from_utf8_lossy(b).to_string()),
        p.serial_consistency.map(sess::consistency_name),
        p.timestamp
    )
}

/// First field of the received `<query_parameters>` that differs from what the caller asked for.
#[allow(clippy::too_many_arguments)]
fn diff_params(got: &QueryParams, exp: &Exp, values: &[Val], skip: bool, page_size: Option<i32>, paging_state: Option<&[u8]>, generated: &[i64]) -> Option<(&'static str, String)> {
    if got.consistency != exp.consistency {
        return Some(("consistency", format!("consistency {} instead of {}", sess::consistency_name(got.consistency), sess::consistency_name(exp.consistency))));
    }
    if got.serial_consistency != exp.serial {
        return Some(("serial-consistency", format!("serial consistency {:?} instead of {:?}", got.serial_consistency.map(sess::consistency_name), exp.serial.map(sess::consistency_name))));
    }
    if got.page_size != page_size {
        return Some(("page-size", format!("page size {:?} instead of {:?}", got.page_size, page_size)));
    }
    if got.paging_state.as_deref() != paging_state {
        return Some(("paging-state", format!("paging state {:?} instead of {:?}", got.paging_state.as_ref().map(|b| vcore::hex(b)), paging_state.map(vcore::hex))));
    }
    if let Some(e) = diff_ts(got.timestamp, &exp.ts, generated) {
        return Some(("timestamp", e));
    }
    if got.skip_metadata != skip {
        return Some(("skip-metadata", format!("skip-metadata flag {} instead of {}", got.skip_metadata, skip)));
    }
    if got.names.is_some() {
        return Some(("values", "named values sent for positional bind markers".into()));
    }
    if got.values != values {
        return Some(("values", format!("values {:?} instead of {:?}", got.values, values)));
    }
    if got.flags & 0x80 != 0 {
        return Some(("flags", format!("unknown flag bits in 0x{:02x}", got.flags)));
    }
    None
}

fn diff_ts(got: Option<i64>, exp: &TsExp, generated: &[i64]) -> Option<String> {
    match (exp, got) {
        (TsExp::Absent, None) => None,
        (TsExp::Absent, Some(t)) => Some(format!("timestamp {t} although none was set and no generator is configured")),
        (TsExp::Exact(e), Some(t)) if t == *e => None,
        (TsExp::Exact(e), other) => Some(format!("timestamp {other:?} instead of the statement's explicit {e}")),
        (TsExp::GeneratedOrAbsent, None) => None,
        (TsExp::Generated | TsExp::GeneratedOrAbsent, Some(t)) if generated.contains(&t) => None,
        (TsExp::GeneratedOrAbsent, other) => Some(format!("timestamp {other:?} is not one the configured generator handed out during the call ({generated:?})")),
        (TsExp::Generated, other) => Some(format!("timestamp {other:?} is not one the configured generator handed out during the call ({generated:?})")),
    }
}

// ------------------------------------------------------------------------------------------------ environment

struct Env {
    cfg: SessCfg,
    cluster: MockCluster,
    session: Arc<Session>,
    /// CachingSessions over the same Session: [use_cached_result_metadata = false, = true]; capacity 4 < 12 statement texts,
    /// so both cache hits and misses (a PREPARE before the request) occur all the time
    caching: [CachingSession; 2],
    generator: Option<Arc<RecordingGen>>,
    handle: ExecutionProfileHandle,
    prepared: HashMap<&'static str, PreparedStatement>,
    /// result-metadata id the node put into its PREPARED answer, by statement text
    node_meta_id: std::sync::Mutex<HashMap<String, Option<Vec<u8>>>>,
}

async fn setup(cfg: SessCfg) -> Env {
    let mut node = NodeSpec::new("dc1", "r1", vec![-100, 4000]);
    node.metadata_id = cfg.ext;
    node.lwt_mark = Some(0x8000_0000); // ScyllaDB's LWT_OPTIMIZATION_META_BIT_MASK
    let cluster = MockCluster::builder()
        .node(node)
        .keyspace(KeyspaceSpec::simple("ks", 1).table(TableSpec::new("t").pk("a", "int").col("b", "text")))
        .build()
        .await
        .unwrap_or_else(|e| vcore::machinery_error(&e));
    let cols = vec![col("ks", "t", "a", ColType::Int), col("ks", "t", "b", ColType::Text)];
    let rows = vec![vec![val::int(1), val::text("one")], vec![val::int(2), val::text("two")], vec![val::int(3), val::text("three")]];
    for (select, lwt) in [(true, false), (false, false), (true, true), (false, true)] {
        for m in 0..3usize {
            let mut s = Script::new(stmt_text(select, m, lwt)).bind(cols[..m].to_vec(), if m > 0 { vec![0] } else { vec![] });
            s.lwt = lwt;
            if select {
                let (cols2, rows2) = (cols.clone(), rows.clone());
                s = s.result(cols.clone()).reply(move |ctx| match paginate(rows2.clone(), None, ctx.params()) {
                    Ok((page, next)) => Response::rows_paged(cols2.clone(), page, next).into(),
                    Err(e) => mockcluster::Reply::error(mockcluster::wire::ErrorBody::invalid(&e)),
                });
            }
            cluster.script(s);
        }
    }
    let mut b = SessionBuilder::new().known_node(cluster.contact_point(0));
    let generator = cfg.generator.then(|| Arc::new(RecordingGen::new(GEN_BASE)));
    if let Some(g) = &generator {
        b = b.timestamp_generator(g.clone());
    }
    if cfg.custom_profile {
        b = b.default_execution_profile_handle(ExecutionProfile::builder().consistency(Consistency::Two).serial_consistency(Some(SerialConsistency::Serial)).build().into_handle());
    }
    let session = Arc::new(b.build().await.unwrap_or_else(|e| vcore::machinery_error(&format!("session: {e}\n{}", cluster.dump_log()))));
    let caching = [false, true].map(|m| CachingSessionBuilder::new_shared(session.clone()).max_capacity(4).use_cached_result_metadata(m).build());
    cluster
        .wait_conns("pool connection ready", mockcluster::DEADLINE, |cs| cs.iter().any(|c| c.open && c.ready && c.registered.is_empty()).then_some(()))
        .await
        .unwrap_or_else(|e| vcore::machinery_error(&e));
    let handle = ExecutionProfile::builder().consistency(Consistency::EachQuorum).serial_consistency(None).build().into_handle();
    let mut prepared = HashMap::new();
    for (select, lwt) in [(true, false), (false, false), (true, true), (false, true)] {
        for m in 0..3usize {
            let t = stmt_text(select, m, lwt);
            let ps = session.prepare(t).await.unwrap_or_else(|e| vcore::machinery_error(&format!("prepare {t:?}: {e}")));
            if ps.is_confirmed_lwt() != lwt {
                vcore::machinery_error(&format!("is_confirmed_lwt() = {} for {t:?}: the scripted LWT mark did not arrive", ps.is_confirmed_lwt()));
            }
            prepared.insert(t, ps);
        }
    }
    let env = Env { cfg, cluster, session, caching, generator, handle, prepared, node_meta_id: Default::default() };
    let all = env.cluster.log();
    env.learn_meta_ids(&all);
    env
}

impl Env {
    fn learn_meta_ids(&self, entries: &[Arc<LogEntry>]) {
        for e in entries {
            if let LogKind::Sent { response, .. } = &e.kind {
                if let Response::Prepared(p) = &response.response {
                    for (select, lwt) in [(true, false), (false, false), (true, true), (false, true)] {
                        for m in 0..3usize {
                            let t = stmt_text(select, m, lwt);
                            if p.id == prepared_id(t) {
                                self.node_meta_id.lock().unwrap().insert(t.to_string(), p.result_metadata_id.clone());
                            }
                        }
                    }
                }
            }
        }
    }
}

macro_rules! apply_common {
    ($obj:expr, $c:expr, $env:expr) => {{
        if let Some(t) = $c.explicit_ts() {
            $obj.set_timestamp(Some(t));
        }
        if $c.cons == 1 || $c.cons == 3 {
            $obj.set_execution_profile_handle(Some($env.handle.clone()));
        }
        if $c.cons >= 2 {
            $obj.set_consistency($c.cons_value());
        }
        match $c.serial {
            0 => {}
            1 => $obj.set_serial_consistency(None),
            2 => $obj.set_serial_consistency(Some(SerialConsistency::Serial)),
            _ => $obj.set_serial_consistency(Some(SerialConsistency::LocalSerial)),
        }
        $obj.set_tracing($c.tracing);
        $obj.set_is_idempotent($c.idem);
    }};
}

/// Perform the caller's side of the case; returns how many request frames (pages / follow-up calls) it must have caused.
async fn drive(env: &Env, c: &Case) -> Result<usize, String> {
    let vals = caller_values(c.vals, c.a(), c.b());
    match c.api {
        Api::QueryUnpaged | Api::QuerySinglePage | Api::QueryIter => {
            let mut st = Statement::new(c.text());
            if let Some(p) = c.page_size() {
                st.set_page_size(p);
            }
            apply_common!(st, c, env);
            match c.api {
                Api::QueryUnpaged => env.session.query_unpaged(st, vals).await.map(|_| 1).map_err(|e| e.to_string()),
                Api::QuerySinglePage => {
                    let (_, state) = env.session.query_single_page(st.clone(), &vals, PagingState::start()).await.map_err(|e| e.to_string())?;
                    match state {
                        PagingStateResponse::NoMorePages => Ok(1),
                        PagingStateResponse::HasMorePages { state } => env.session.query_single_page(st, &vals, state).await.map(|_| 2).map_err(|e| e.to_string()),
                    }
                }
                _ => {
                    let pager = env.session.query_iter(st, vals).await.map_err(|e| e.to_string())?;
                    drain(pager).await
                }
            }
        }
        Api::ExecUnpaged | Api::ExecSinglePage | Api::ExecIter => {
            let mut ps = env.prepared[c.text()].clone();
            if let Some(p) = c.page_size() {
                ps.set_page_size(p);
            }
            apply_common!(ps, c, env);
            ps.set_use_cached_result_metadata(c.cached);
            match c.api {
                Api::ExecUnpaged => env.session.execute_unpaged(&ps, vals).await.map(|_| 1).map_err(|e| e.to_string()),
                Api::ExecSinglePage => {
                    let (_, state) = env.session.execute_single_page(&ps, &vals, PagingState::start()).await.map_err(|e| e.to_string())?;
                    match state {
                        PagingStateResponse::NoMorePages => Ok(1),
                        PagingStateResponse::HasMorePages { state } => env.session.execute_single_page(&ps, &vals, state).await.map(|_| 2).map_err(|e| e.to_string()),
                    }
                }
                _ => {
                    let pager = env.session.execute_iter(ps, vals).await.map_err(|e| e.to_string())?;
                    drain(pager).await
                }
            }
        }
        Api::CacheExecUnpaged | Api::CacheExecSinglePage | Api::CacheExecIter => {
            let mut st = Statement::new(c.text());
            if let Some(p) = c.page_size() {
                st.set_page_size(p);
            }
            apply_common!(st, c, env);
            let cs = &env.caching[c.cached as usize];
            match c.api {
                Api::CacheExecUnpaged => cs.execute_unpaged(st, vals).await.map(|_| 1).map_err(|e| e.to_string()),
                Api::CacheExecSinglePage => {
                    let (_, state) = cs.execute_single_page(st.clone(), &vals, PagingState::start()).await.map_err(|e| e.to_string())?;
                    match state {
                        PagingStateResponse::NoMorePages => Ok(1),
                        PagingStateResponse::HasMorePages { state } => cs.execute_single_page(st, &vals, state).await.map(|_| 2).map_err(|e| e.to_string()),
                    }
                }
                _ => {
                    let pager = cs.execute_iter(st, vals).await.map_err(|e| e.to_string())?;
                    drain(pager).await
                }
            }
        }
        Api::Batch | Api::CacheBatch | Api::CachePrepareBatch => {
            let mut batch = Batch::new(match c.btype {
                0 => BatchType::Logged,
                1 => BatchType::Unlogged,
                _ => BatchType::Counter,
            });
            let mut values: Vec<Box<dyn SerializeRow + Send + Sync>> = Vec::new();
            for (i, (kind, shape)) in batch_mix(c.bmix).into_iter().enumerate() {
                let markers = match shape {
                    0 => 0,
                    1 => 1,
                    _ => 2,
                };
                let text = stmt_text(false, markers, c.lwt);
                if kind == 'U' {
                    batch.append_statement(Statement::new(text));
                } else {
                    batch.append_statement(env.prepared[text].clone());
                }
                values.push(caller_values(shape, c.a().wrapping_add(i as i32), c.b()));
            }
            apply_common!(batch, c, env);
            match c.api {
                Api::Batch => env.session.batch(&batch, values).await.map(|_| 1).map_err(|e| e.to_string()),
                Api::CacheBatch => env.caching[0].batch(&batch, values).await.map(|_| 1).map_err(|e| e.to_string()),
                _ => {
                    let prepared = env.caching[0].prepare_batch(&batch).await.map_err(|e| e.to_string())?;
                    env.session.batch(&prepared, values).await.map(|_| 1).map_err(|e| e.to_string())
                }
            }
        }
    }
}

async fn drain(pager: scylla::client::pager::QueryPager) -> Result<usize, String> {
    use futures::StreamExt;
    let mut stream = pager.rows_stream::<(i32, String)>().map_err(|e| e.to_string())?;
    let mut rows = 0usize;
    while let Some(r) = stream.next().await {
        r.map_err(|e| e.to_string())?;
        rows += 1;
    }
    if rows != 3 {
        return Err(format!("pager yielded {rows} rows, the node holds 3"));
    }
    Ok(0) // the number of pages is decided by the node: checked against the page size in the oracle
}

// ------------------------------------------------------------------------------------------------ oracle

fn viol(r: &Report, c: &Case, field: &str, what: String, frames: &[Arc<LogEntry>]) {
    let shown: Vec<String> = frames.iter().map(|e| e.describe()).collect();
    r.violation(&format!("session:{}:{}", c.api.name(), field), &format!("{} with {}: {what}; frames received: {shown:?}", c.api.name(), c.json()), c.json());
}

async fn check_one(r: &Report, env: &Env, c: &Case) {
    let from = env.cluster.log_len();
    let g0 = env.generator.as_ref().map(|g| g.handed_len()).unwrap_or(0);
    let res = drive(env, c).await;
    let window = env.cluster.log_since(from);
    env.learn_meta_ids(&window);
    let generated: Vec<i64> = env.generator.as_ref().map(|g| g.handed_since(g0)).unwrap_or_default();
    let frames: Vec<Arc<LogEntry>> = window.iter().filter(|e| e.is_user_frame() || matches!(e.frame().map(|f| f.opcode), Some(Opcode::Other(_)))).cloned().collect();
    r.eval(1);
    let calls = match res {
        Ok(n) => n,
        Err(e) => return viol(r, c, "call-failed", format!("the call failed: {e}"), &frames),
    };
    let exp = expect_common(c);
    let (prepares, requests): (Vec<_>, Vec<_>) = frames.iter().cloned().partition(|e| e.opcode() == Some(Opcode::Prepare));

    // which statements must have been prepared on the fly (unprepared + non-empty values)
    let mut must_prepare: BTreeSet<&'static str> = BTreeSet::new();
    if c.api.is_query() && c.vals != 0 {
        must_prepare.insert(c.text());
    }
    // ... and which MAY be (CachingSession: a PREPARE appears on a cache miss only)
    let mut may_prepare: BTreeSet<&'static str> = BTreeSet::new();
    if c.api.is_cache_exec() {
        may_prepare.insert(c.text());
    }
    if c.api.is_batch() {
        for (kind, shape) in batch_mix(c.bmix) {
            let text = stmt_text(false, if shape == 0 { 0 } else if shape == 1 { 1 } else { 2 }, c.lwt);
            if kind == 'U' && c.api.is_cache() {
                may_prepare.insert(text);
            } else if kind == 'U' && shape != 0 {
                must_prepare.insert(text);
            }
        }
    }
    let prepared_texts: BTreeSet<&str> = prepares.iter().filter_map(|e| e.frame().and_then(|f| f.request.text())).collect();
    let must: BTreeSet<&str> = must_prepare.iter().copied().collect();
    let allowed: BTreeSet<&str> = must_prepare.iter().chain(may_prepare.iter()).copied().collect();
    if !prepared_texts.is_superset(&must) || !prepared_texts.is_subset(&allowed) {
        return viol(r, c, "prepare-text", format!("PREPARE frames for {prepared_texts:?}; the caller's statements needing preparation are {must_prepare:?} (through the cache, on a miss: {may_prepare:?})"), &frames);
    }
    if !prepares.is_empty() && c.api.is_cache() {
        r.counters.add("caching_session_calls_with_cache_miss", 1);
    }
    r.counters.add("prepare_frames_checked", prepares.len() as u64);
    if let (Some(p), Some(q)) = (prepares.first(), requests.first()) {
        if p.seq > q.seq {
            return viol(r, c, "prepare-order", "the request arrived before the first PREPARE of the statement it needs".into(), &frames);
        }
    }

    // how many request frames
    let pages_expected: Vec<Option<Vec<u8>>> = if c.api.is_unpaged() {
        vec![None]
    } else {
        let ps = c.page_size().unwrap_or(DEFAULT_PAGE_SIZE) as usize;
        let n_pages = if c.select { 3usize.div_ceil(ps).max(1) } else { 1 };
        let n = if c.api.is_iter() { n_pages } else { n_pages.min(2) };
        (0..n).map(|i| (i > 0).then(|| format!("mockpg:{i}").into_bytes())).collect()
    };
    if !c.api.is_iter() && calls != pages_expected.len() {
        vcore::machinery_error(&format!("harness made {calls} calls, expected {} for {}", pages_expected.len(), c.json()));
    }
    if requests.len() != pages_expected.len() {
        return viol(r, c, "frame-count", format!("{} request frames for a call that needs {}", requests.len(), pages_expected.len()), &frames);
    }
    let page_size = if c.api.is_unpaged() { None } else { Some(c.page_size().unwrap_or(DEFAULT_PAGE_SIZE)) };
    let values = wire_values(c.vals, c.a(), c.b());
    let mut seen_ts = BTreeSet::new();
    for (e, paging_state) in requests.iter().zip(&pages_expected) {
        let f = e.frame().unwrap();
        r.counters.add("request_frames_checked", 1);
        r.counters.add(&format!("frames_{}", f.opcode.name().to_lowercase()), 1);
        let tracing_flag = f.flags & mockcluster::wire::flag::TRACING != 0;
        if tracing_flag != c.tracing {
            return viol(r, c, "tracing-flag", format!("header flags 0x{:02x}: tracing {} but the statement says {}", f.flags, tracing_flag, c.tracing), &frames);
        }
        if f.flags & !mockcluster::wire::flag::TRACING != 0 {
            return viol(r, c, "header-flags", format!("header flags 0x{:02x}: nothing but tracing was asked for / negotiated", f.flags), &frames);
        }
        match (&f.request, c.api) {
            (Request::Query { text, params }, a) if a.is_query() && c.vals == 0 => {
                if text != c.text() {
                    return viol(r, c, "statement-text", format!("QUERY text {text:?}"), &frames);
                }
                if let Some((field, what)) = diff_params(params, &exp, &[], false, page_size, paging_state.as_deref(), &generated) {
                    return viol(r, c, field, format!("{what} [{}]", describe_params(params)), &frames);
                }
                r.counters.add(&format!("param_flags_0x{:02x}", params.flags), 1);
                if let Some(t) = params.timestamp {
                    seen_ts.insert(t);
                }
            }
            (Request::Execute { id, result_metadata_id, params }, a) if a.is_exec() || a.is_cache_exec() || (a.is_query() && c.vals != 0) => {
                if *id != prepared_id(c.text()) {
                    return viol(r, c, "prepared-id", format!("EXECUTE id {} is not the id the node assigned to {:?}", vcore::hex(id), c.text()), &frames);
                }
                let skip = c.select && (env.cfg.ext || ((a.is_exec() || a.is_cache_exec()) && c.cached));
                let want_meta: Option<Vec<u8>> = if !env.cfg.ext {
                    None
                } else if skip {
                    match env.node_meta_id.lock().unwrap().get(c.text()).cloned().flatten() {
                        Some(x) => Some(x),
                        None => vcore::machinery_error(&format!("no PREPARED answer with a result metadata id seen for {:?}", c.text())),
                    }
                } else {
                    Some(vec![])
                };
                if *result_metadata_id != want_meta {
                    return viol(r, c, "result-metadata-id", format!("result metadata id {:?} instead of {:?}", result_metadata_id.as_ref().map(|b| vcore::hex(b)), want_meta.as_ref().map(|b| vcore::hex(b))), &frames);
                }
                if let Some((field, what)) = diff_params(params, &exp, &values, skip, page_size, paging_state.as_deref(), &generated) {
                    return viol(r, c, field, format!("{what} [{}]", describe_params(params)), &frames);
                }
                r.counters.add(&format!("param_flags_0x{:02x}", params.flags), 1);
                if let Some(t) = params.timestamp {
                    seen_ts.insert(t);
                }
            }
            (Request::Batch { kind, statements, consistency, flags, serial_consistency, timestamp }, a) if a.is_batch() => {
                if *kind != c.btype {
                    return viol(r, c, "batch-type", format!("batch type {kind} instead of {}", c.btype), &frames);
                }
                let want: Vec<BatchStmt> = batch_mix(c.bmix)
                    .into_iter()
                    .enumerate()
                    .map(|(i, (k, shape))| {
                        let text = stmt_text(false, if shape == 0 { 0 } else if shape == 1 { 1 } else { 2 }, c.lwt);
                        let values = wire_values(shape, c.a().wrapping_add(i as i32), c.b());
                        // a CachingSession prepares every unprepared statement of the batch, with or without values
                        if k == 'U' && shape == 0 && !c.api.is_cache() { BatchStmt::Query { text: text.to_string(), values } } else { BatchStmt::Prepared { id: prepared_id(text), values } }
                    })
                    .collect();
                if *statements != want {
                    return viol(r, c, "batch-statements", format!("statements {statements:?} instead of {want:?}"), &frames);
                }
                if *consistency != exp.consistency {
                    return viol(r, c, "consistency", format!("consistency {} instead of {}", sess::consistency_name(*consistency), sess::consistency_name(exp.consistency)), &frames);
                }
                if *serial_consistency != exp.serial {
                    return viol(r, c, "serial-consistency", format!("serial consistency {:?} instead of {:?}", serial_consistency.map(sess::consistency_name), exp.serial.map(sess::consistency_name)), &frames);
                }
                if let Some(e) = diff_ts(*timestamp, &exp.ts, &generated) {
                    return viol(r, c, "timestamp", e, &frames);
                }
                if flags & !0x30 != 0 {
                    return viol(r, c, "flags", format!("batch flags 0x{flags:02x} carry bits other than serial consistency / timestamp"), &frames);
                }
                r.counters.add(&format!("batch_flags_0x{flags:02x}"), 1);
            }
            (other, _) => {
                return viol(r, c, "opcode", format!("unexpected request {other:?}"), &frames);
            }
        }
    }
    if exp.ts == TsExp::Generated && seen_ts.len() != requests.len() && !c.api.is_batch() {
        return viol(r, c, "timestamp", format!("{} request frames share generated timestamps {seen_ts:?}", requests.len()), &frames);
    }
    if requests.len() > 1 {
        r.counters.add("cases_with_later_pages", 1);
    }
}

fn nontrivial(c: &Case) -> bool {
    let mut k = 0;
    k += (c.cons != 0) as u32;
    k += (c.serial != 0) as u32;
    k += (c.page != 0 && !c.api.is_unpaged()) as u32;
    k += (c.ts || c.cfg.generator) as u32;
    k += c.tracing as u32;
    k += (c.vals != 0 || c.bmix > 1) as u32;
    k += (c.select && (c.cfg.ext || c.cached) && (c.api.is_exec() || c.api.is_cache_exec() || c.vals != 0)) as u32;
    k >= 3
}

fn run_partition(r: &Report, cfg: SessCfg, part: Vec<Case>) {
    sess::block_on(2, async {
        let env = setup(cfg).await;
        for c in &part {
            check_one(r, &env, c).await;
        }
        let from = env.cluster.log_len();
        env.cluster.quiesce(Duration::from_millis(100)).await;
        let late: Vec<String> = env.cluster.log_since(from).iter().filter(|e| e.is_user_frame()).map(|e| e.describe()).collect();
        if !late.is_empty() {
            r.violation("session:late-frame", &format!("request frames arrived after every call had returned: {late:?}"), json!({"leg":"session","late":late}));
        }
        if r.violation_count() == 0 {
            if let Some(u) = env.cluster.unexpected().first() {
                vcore::machinery_error(&format!("mock saw an unscripted request although every frame passed the oracle: {}", u.describe()));
            }
        }
        env.cluster.shutdown().await;
        drop(env.session);
    });
}

fn main() {
    let r = Report::new("C09", "session", "exploration", "E-MOCK");
    sess::watchdog(std::time::Duration::from_secs(r.tier().pick(600, 3600)));
    vcore::quiet_panics();
    if let Some(case) = r.replay_case() {
        let c = Case::from_json(&case);
        println!("replaying {}", c.json());
        run_partition(&r, c.cfg, vec![c]);
        r.finish_replay();
    }
    let mut cfgs = Vec::new();
    for ext in [false, true] {
        for generator in [false, true] {
            for custom_profile in [false, true] {
                cfgs.push(SessCfg { ext, generator, custom_profile });
            }
        }
    }
    let shards = (r.args.jobs / cfgs.len()).clamp(1, 2);
    // thorough: the whole enumeration once per rotation offset, so every case meets all 11 consistencies / 6 timestamps
    let offsets: Vec<u64> = r.tier().pick(vec![0], (0..11).collect());
    r.note("rotation_offsets", json!(offsets.len()));
    let mut parts: Vec<(SessCfg, Vec<Case>)> = Vec::new();
    let mut total = 0u64;
    let mut nontriv = 0u64;
    let mut per_api: HashMap<&'static str, u64> = HashMap::new();
    for cfg in &cfgs {
        let base = all_cases(*cfg);
        let mut all = Vec::with_capacity(base.len() * offsets.len());
        for k in &offsets {
            all.extend(base.iter().cloned().map(|mut c| {
                c.n += k;
                c
            }));
        }
        total += all.len() as u64;
        nontriv += all.iter().filter(|c| nontrivial(c)).count() as u64;
        for c in &all {
            *per_api.entry(c.api.name()).or_default() += 1;
        }
        if *cfg == cfgs[0] {
            r.sample(all[0].json());
            r.sample(all[all.len() / 2].json());
            r.sample(all[all.len() - 1].json());
        }
        for b in sess::buckets(all, shards * offsets.len()) {
            parts.push((*cfg, b));
        }
    }
    r.note("cases", json!(total));
    r.note("session_configurations", json!(cfgs.len()));
    r.note("cases_per_api", json!(per_api));
    r.nontrivial(nontriv);
    r.set_rule("cases in which at least 3 of {consistency source, serial consistency, page size on a paged call, timestamp (explicit or generator), tracing, bound values, skip-metadata} differ from the all-defaults request");
    // every partition owns a cluster + session; at most 16 run at a time
    let rr = &r;
    let queue = std::sync::Mutex::new(parts);
    std::thread::scope(|s| {
        for _ in 0..r.args.jobs.clamp(1, 16) {
            s.spawn(|| {
                loop {
                    let next = queue.lock().unwrap().pop();
                    match next {
                        Some((cfg, b)) => run_partition(rr, cfg, b),
                        None => break,
                    }
                }
            });
        }
    });
    r.set_exhaustive(true);
    r.assume("one non-sharded node, one pool connection; no compression (the mock offers none); no errors, so one attempt per request");
    r.assume("explicit timestamps, consistency overrides and bound values rotate through boundary alphabets (6 timestamps, all 11 consistencies, 6 ints, 4 texts) instead of multiplying");
    r.assume("skip-metadata expectation: set iff the prepared statement has result columns and (use_cached_result_metadata or the metadata-id extension is negotiated); with the extension the EXECUTE carries the id from the node's PREPARED answer (empty id when metadata is requested)");
    r.finish();
}
