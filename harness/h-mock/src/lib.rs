//! Shared helpers for the end-to-end (real Session vs mock cluster) checks; bins under src/bin.
pub mod c07_pager; // C07: page splits, reference expectation, scripted world, case runner, oracle
pub mod c14_model; // C14: stateful node model, event alphabet, world (Session + mock), oracle
