//! Shared helpers for the end-to-end (real Session vs mock cluster) checks; bins under src/bin.
