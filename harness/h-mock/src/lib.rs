//! Shared helpers for the end-to-end (real Session vs mock cluster) checks; bins under src/bin.
pub mod c07_pager; // C07: page splits, reference expectation, scripted world, case runner, oracle
