//! Shared helpers for the end-to-end (real Session vs mock cluster) checks; bins under src/bin.
pub mod sess;
pub mod connleg;
pub mod c12_model; // C12: cluster descriptors, cell/key search, expected first targets (cqlref only)
pub mod c07_pager; // C07: page splits, reference expectation, scripted world, case runner, oracle
pub mod c14_model; // C14: stateful node model, event alphabet, world (Session + mock), oracle
pub mod retryleg; // C06/C13 E-MOCK legs: 3-node world, request identification on the wire, client calls, recording retry policy
