//! Shared plumbing of the end-to-end retry / speculative-execution legs (c06_mock, c13_mock): a 3-node mock
//! cluster whose scripted statements answer every request API the session offers (QUERY / EXECUTE / BATCH and
//! the paged iterators), identification of the frames of one *logical request* on the wire (a case id carried
//! in the statement text or in the first bound value), the five client calls with typed results, the mapping
//! driver error value -> failure class name, and a retry policy wrapper that forwards to a built-in policy and
//! records what the execution loop asked it.
//!
//! Nothing here is an oracle; the class names and wire codes are written from the protocol specification.
use crate::sess::consistency_code;
use cqlref::retry::{Cl, Decision};
use futures::StreamExt;
use mockcluster::wire::{BatchStmt, ColType, ErrorBody, Opcode, Request, col, errcode, val};
use mockcluster::{FrameInfo, KeyspaceSpec, LogEntry, LogKind, MockCluster, NodeSpec, Reply, Script, TableSpec, paginate, prepared_id};
use scylla::client::execution_profile::ExecutionProfileHandle;
use scylla::client::pager::{NextPageError, NextRowError, QueryPager};
use scylla::client::session::Session;
use scylla::errors::{DbError, ExecutionError, PagerExecutionError, RequestAttemptError, RequestError};
use scylla::policies::retry::{RequestInfo, RetryDecision, RetryPolicy, RetrySession};
use scylla::statement::Consistency;
use scylla::statement::batch::{Batch, BatchType};
use scylla::statement::prepared::PreparedStatement;
use scylla::statement::unprepared::Statement;
use std::sync::{Arc, Mutex};
use std::time::Duration;

/// Liveness deadline for everything a correct driver does in milliseconds.
pub const LIVENESS: Duration = Duration::from_secs(20);
pub const N_NODES: usize = 3;

pub const Q_INS_PREFIX: &str = "INSERT INTO ks.t (a, b) VALUES (";
pub const E_INS: &str = "INSERT INTO ks.t (a, b) VALUES (?, 'e')";
pub const B_UPD: &str = "UPDATE ks.t SET b = 'b' WHERE a = ?";
pub const Q_SEL_PREFIX: &str = "SELECT a, b FROM ks.t WHERE a = ";
pub const E_SEL: &str = "SELECT a, b FROM ks.t WHERE a = ?";

#[derive(Clone, Copy, Debug, PartialEq, Eq, Hash, PartialOrd, Ord)]
pub enum Api {
    /// `query_unpaged` of a unique INSERT text (QUERY frame, Void)
    QueryIns,
    /// `execute_unpaged` of a prepared INSERT (EXECUTE frame, Void)
    ExecIns,
    /// `batch` of two prepared UPDATEs (BATCH frame, Void)
    Batch,
    /// `query_unpaged` of a unique SELECT text (QUERY frame, rows naming the answering node)
    QuerySel,
    /// `execute_unpaged` of a prepared SELECT (EXECUTE frame, rows naming the answering node)
    ExecSel,
    /// `query_iter` of a unique SELECT text, page size 1, two pages
    QueryIter,
    /// `execute_iter` of a prepared SELECT, page size 1, two pages
    ExecIter,
}
impl Api {
    pub const ALL: [Api; 7] = [Api::QueryIns, Api::ExecIns, Api::Batch, Api::QuerySel, Api::ExecSel, Api::QueryIter, Api::ExecIter];
    pub fn name(self) -> &'static str {
        match self {
            Api::QueryIns => "query_unpaged",
            Api::ExecIns => "execute_unpaged",
            Api::Batch => "batch",
            Api::QuerySel => "query_unpaged(select)",
            Api::ExecSel => "execute_unpaged(select)",
            Api::QueryIter => "query_iter",
            Api::ExecIter => "execute_iter",
        }
    }
    pub fn from_name(s: &str) -> Option<Api> {
        Api::ALL.into_iter().find(|a| a.name() == s)
    }
    pub fn opcode(self) -> Opcode {
        match self {
            Api::QueryIns | Api::QuerySel | Api::QueryIter => Opcode::Query,
            Api::ExecIns | Api::ExecSel | Api::ExecIter => Opcode::Execute,
            Api::Batch => Opcode::Batch,
        }
    }
    pub fn is_paged(self) -> bool {
        matches!(self, Api::QueryIter | Api::ExecIter)
    }
    pub fn pages(self) -> usize {
        if self.is_paged() { 2 } else { 1 }
    }
}

/// One frame of a logical request as the mock saw it.
#[derive(Clone, Debug)]
pub struct WireAttempt {
    pub seq: u64,
    pub node: usize,
    pub conn: u64,
    pub opcode: Opcode,
    pub page: usize,
    pub consistency: u16,
}

fn leading_int(s: &str) -> Option<i32> {
    let d: String = s.chars().take_while(|c| c.is_ascii_digit()).collect();
    d.parse().ok()
}
fn int_val(v: Option<&mockcluster::wire::Val>) -> Option<i32> {
    Some(i32::from_be_bytes(v?.as_bytes()?.try_into().ok()?))
}

/// (case id, page index, consistency code) of a frame that belongs to a test request; None for everything else.
pub fn ident(f: &FrameInfo) -> Option<(i32, usize, u16)> {
    let page_of = |p: &mockcluster::wire::QueryParams| -> usize { p.paging_state.as_ref().and_then(|ps| std::str::from_utf8(ps).ok()?.strip_prefix("mockpg:")?.parse().ok()).unwrap_or(0) };
    match &f.request {
        Request::Query { text, params } => {
            let id = text.strip_prefix(Q_INS_PREFIX).or_else(|| text.strip_prefix(Q_SEL_PREFIX)).and_then(leading_int)?;
            Some((id, page_of(params), params.consistency))
        }
        Request::Execute { params, .. } => {
            let s = f.statement.as_deref()?;
            if s != E_INS && s != E_SEL {
                return None;
            }
            Some((int_val(params.values.first())?, page_of(params), params.consistency))
        }
        Request::Batch { statements, consistency, .. } => match statements.first()? {
            BatchStmt::Prepared { id, values } if *id == prepared_id(B_UPD) => Some((int_val(values.first())?, 0, *consistency)),
            _ => None,
        },
        _ => None,
    }
}
pub fn entry_ident(e: &LogEntry) -> Option<(i32, usize, u16)> {
    e.frame().and_then(ident)
}

/// Frames of logical request `id` among `log`, in arrival order.
pub fn attempts_of(log: &[Arc<LogEntry>], id: i32) -> Vec<WireAttempt> {
    log.iter()
        .filter_map(|e| {
            let f = e.frame()?;
            let (i, page, consistency) = ident(f)?;
            (i == id).then(|| WireAttempt { seq: e.seq, node: e.node, conn: e.conn, opcode: f.opcode, page, consistency })
        })
        .collect()
}
/// seq of the request frames among `log` whose response was handed to a socket (complete frame).
pub fn answered_seqs(log: &[Arc<LogEntry>]) -> std::collections::BTreeMap<u64, u64> {
    let mut m = std::collections::BTreeMap::new();
    for e in log {
        if let LogKind::Sent { request_seq: Some(r), .. } = &e.kind {
            m.entry(*r).or_insert(e.seq);
        }
    }
    m
}

pub fn row_tag(node: usize, page: usize) -> String {
    format!("node{node}/page{page}")
}

/// 3 Cassandra-like nodes (one pooled connection each, so the request plan is the list of nodes), keyspace `ks`
/// RF 2, table `t(a int primary key, b text)`, success scripts for the five statement shapes.
pub async fn build_cluster() -> Result<MockCluster, String> {
    let cluster = MockCluster::builder()
        .node(NodeSpec::new("dc1", "r1", vec![-6_000_000_000_000_000_000, 100]))
        .node(NodeSpec::new("dc1", "r1", vec![-3_000_000_000_000_000_000, 3_000_000_000_000_000_000]))
        .node(NodeSpec::new("dc1", "r1", vec![0, 6_000_000_000_000_000_000]))
        .keyspace(KeyspaceSpec::simple("ks", 2).table(TableSpec::new("t").pk("a", "int").col("b", "text")))
        .build()
        .await?;
    let cols = vec![col("ks", "t", "a", ColType::Int), col("ks", "t", "b", ColType::Text)];
    cluster.script(Script::new(Q_INS_PREFIX).prefix());
    cluster.script(Script::new(E_INS).bind(vec![cols[0].clone()], vec![0]));
    cluster.script(Script::new(B_UPD).bind(vec![cols[0].clone()], vec![0]));
    let select_reply = {
        let cols = cols.clone();
        move |ctx: &mockcluster::ReqCtx| -> Reply {
            let Some((id, page, _)) = ident(ctx.entry.frame().unwrap()) else {
                return Reply::error(ErrorBody::invalid("mock: test SELECT without a case id"));
            };
            // two rows; with page size 1 they come as two pages, each cell names the node that served the page
            let paged = ctx.params().and_then(|p| p.page_size).map(|n| n == 1).unwrap_or(false);
            let rows: Vec<Vec<mockcluster::wire::Cell>> = (0..2).map(|r| vec![val::int(id), val::text(&row_tag(ctx.node, if paged { r } else { page }))]).collect();
            match paginate(rows, None, ctx.params()) {
                Ok((page_rows, next)) => Reply::response(mockcluster::wire::Response::rows_paged(cols.clone(), page_rows, next)),
                Err(e) => Reply::error(ErrorBody::invalid(&format!("mock: {e}"))),
            }
        }
    };
    cluster.script(Script::new(Q_SEL_PREFIX).prefix().result(cols.clone()).reply(select_reply.clone()));
    cluster.script(Script::new(E_SEL).bind(vec![cols[0].clone()], vec![0]).result(cols.clone()).reply(select_reply));
    Ok(cluster)
}

pub struct Stmts {
    pub e_ins: PreparedStatement,
    pub b_upd: PreparedStatement,
    pub e_sel: PreparedStatement,
}
pub async fn prepare_all(session: &Session) -> Result<Stmts, String> {
    let p = |t: &'static str| async move { tokio::time::timeout(LIVENESS, session.prepare(t)).await.map_err(|_| format!("prepare of {t:?} hung"))?.map_err(|e| format!("prepare of {t:?}: {e}")) };
    Ok(Stmts { e_ins: p(E_INS).await?, b_upd: p(B_UPD).await?, e_sel: p(E_SEL).await? })
}

/// Steering only: wait until the driver holds a usable connection to every node (pool refill after a reset and
/// the initial fill are asynchronous; there is no notification for it, so this polls the driver's own view).
pub async fn wait_all_connected(session: &Session) -> Result<(), String> {
    let t0 = std::time::Instant::now();
    loop {
        let st = session.get_cluster_state();
        let nodes = st.get_nodes_info();
        if nodes.len() == N_NODES && nodes.iter().all(|n| n.is_connected()) {
            return Ok(());
        }
        if t0.elapsed() > LIVENESS {
            return Err(format!("driver did not connect to all {N_NODES} nodes within {LIVENESS:?} (sees {} nodes, connected: {:?})", nodes.len(), nodes.iter().map(|n| n.is_connected()).collect::<Vec<_>>()));
        }
        tokio::time::sleep(Duration::from_millis(1)).await;
    }
}

// ------------------------------------------------------------------------------------------------
// failure classes on the wire and as the driver reports them
// ------------------------------------------------------------------------------------------------

/// A per-attempt outcome the mock injects. `name` is stable (replay files, violation keys).
#[derive(Clone, Debug, PartialEq, Eq, Hash, PartialOrd, Ord)]
pub struct Sym {
    pub name: &'static str,
    pub class: cqlref::retry::ErrClass,
}
use cqlref::retry::ErrClass as EC;
pub const SYMS: [Sym; 18] = [
    Sym { name: "unavailable", class: EC::Unavailable },
    Sym { name: "overloaded", class: EC::Overloaded },
    Sym { name: "server-error", class: EC::ServerError },
    Sym { name: "truncate-error", class: EC::TruncateError },
    Sym { name: "read-timeout", class: EC::ReadTimeout },
    Sym { name: "write-timeout:SIMPLE", class: EC::WriteTimeout },
    Sym { name: "write-timeout:UNLOGGED_BATCH", class: EC::WriteTimeout },
    Sym { name: "write-timeout:BATCH_LOG", class: EC::WriteTimeout },
    Sym { name: "write-timeout:CAS", class: EC::WriteTimeout },
    Sym { name: "bootstrapping", class: EC::IsBootstrapping },
    Sym { name: "rst", class: EC::BrokenConnection },
    // thorough only
    Sym { name: "unavailable:alive0", class: EC::Unavailable },
    Sym { name: "read-timeout:short", class: EC::ReadTimeout },
    Sym { name: "read-timeout:data", class: EC::ReadTimeout },
    Sym { name: "write-timeout:BATCH", class: EC::WriteTimeout },
    Sym { name: "write-timeout:COUNTER", class: EC::WriteTimeout },
    // used by c13 only
    Sym { name: "invalid", class: EC::OtherDb },
    Sym { name: "syntax-error", class: EC::OtherDb },
];
pub const QUICK_SYMS: usize = 11;
pub const THOROUGH_SYMS: usize = 16;
pub fn sym(name: &str) -> Option<Sym> {
    SYMS.iter().find(|s| s.name == name).cloned()
}
impl Sym {
    /// The mock's reaction for this outcome; `cl` = consistency code of the failed frame (echoed in the body).
    pub fn reply(&self, cl: u16) -> Reply {
        let e = |b: ErrorBody| Reply::error(b);
        match self.name {
            "unavailable" => e(ErrorBody::unavailable(cl, 2, 1)),
            "unavailable:alive0" => e(ErrorBody::unavailable(cl, 2, 0)),
            "overloaded" => e(ErrorBody::overloaded("mock: overloaded")),
            "server-error" => e(ErrorBody::server_error("injected server error")),
            "truncate-error" => e(ErrorBody::simple(errcode::TRUNCATE_ERROR, "mock: truncate error")),
            "read-timeout" => e(ErrorBody::read_timeout(cl, 2, 2, false)),
            "read-timeout:short" => e(ErrorBody::read_timeout(cl, 1, 2, false)),
            "read-timeout:data" => e(ErrorBody::read_timeout(cl, 2, 2, true)),
            "write-timeout:SIMPLE" => e(ErrorBody::write_timeout(cl, 1, 2, "SIMPLE")),
            "write-timeout:BATCH" => e(ErrorBody::write_timeout(cl, 1, 2, "BATCH")),
            "write-timeout:UNLOGGED_BATCH" => e(ErrorBody::write_timeout(cl, 1, 2, "UNLOGGED_BATCH")),
            "write-timeout:BATCH_LOG" => e(ErrorBody::write_timeout(cl, 0, 2, "BATCH_LOG")),
            "write-timeout:CAS" => e(ErrorBody::write_timeout(cl, 0, 2, "CAS")),
            "write-timeout:COUNTER" => e(ErrorBody::write_timeout(cl, 0, 2, "COUNTER")),
            "bootstrapping" => e(ErrorBody::simple(errcode::IS_BOOTSTRAPPING, "mock: bootstrapping")),
            "invalid" => e(ErrorBody::invalid("mock: invalid")),
            "syntax-error" => e(ErrorBody::simple(errcode::SYNTAX_ERROR, "mock: syntax error")),
            "rst" => Reply::Close(mockcluster::CloseKind::Rst),
            other => vcore::machinery_error(&format!("unknown outcome symbol {other}")),
        }
    }
    /// Name under which the driver must report this failure (`err_name`).
    pub fn driver_name(&self) -> &'static str {
        match self.name.split(':').next().unwrap() {
            "unavailable" => "Unavailable",
            "overloaded" => "Overloaded",
            "server-error" => "ServerError",
            "truncate-error" => "TruncateError",
            "read-timeout" => "ReadTimeout",
            "write-timeout" => "WriteTimeout",
            "bootstrapping" => "IsBootstrapping",
            "invalid" => "Invalid",
            "syntax-error" => "SyntaxError",
            "rst" => "BrokenConnection",
            _ => "?",
        }
    }
}

pub fn err_name(e: &RequestAttemptError) -> String {
    match e {
        RequestAttemptError::BrokenConnectionError(_) => "BrokenConnection".into(),
        RequestAttemptError::UnableToAllocStreamId => "UnableToAllocStreamId".into(),
        RequestAttemptError::DbError(d, _) => match d {
            DbError::Unavailable { .. } => "Unavailable".into(),
            DbError::Overloaded => "Overloaded".into(),
            DbError::ServerError => "ServerError".into(),
            DbError::TruncateError => "TruncateError".into(),
            DbError::ReadTimeout { .. } => "ReadTimeout".into(),
            DbError::WriteTimeout { .. } => "WriteTimeout".into(),
            DbError::IsBootstrapping => "IsBootstrapping".into(),
            DbError::Invalid => "Invalid".into(),
            DbError::SyntaxError => "SyntaxError".into(),
            other => format!("Db:{other:?}"),
        },
        other => format!("Other:{other:?}"),
    }
}
pub fn request_err_name(e: &RequestError) -> String {
    match e {
        RequestError::LastAttemptError(a) => err_name(a),
        RequestError::EmptyPlan => "EmptyPlan".into(),
        RequestError::ConnectionPoolError(p) => format!("ConnectionPoolError:{p}"),
        RequestError::RequestTimeout(_) => "RequestTimeout".into(),
        other => format!("Other:{other:?}"),
    }
}
fn exec_err_name(e: &ExecutionError) -> String {
    match e {
        ExecutionError::LastAttemptError(a) => err_name(a),
        ExecutionError::EmptyPlan => "EmptyPlan".into(),
        ExecutionError::ConnectionPoolError(p) => format!("ConnectionPoolError:{p}"),
        ExecutionError::RequestTimeout(_) => "RequestTimeout".into(),
        other => format!("Other:{other:?}"),
    }
}
fn next_page_err_name(e: &NextPageError) -> String {
    match e {
        NextPageError::RequestFailure(r) => request_err_name(r),
        other => format!("Other:{other:?}"),
    }
}

// ------------------------------------------------------------------------------------------------
// client calls
// ------------------------------------------------------------------------------------------------

#[derive(Clone)]
pub struct CallCfg {
    pub api: Api,
    pub id: i32,
    pub idempotent: bool,
    pub consistency: Option<Consistency>,
    pub profile: Option<ExecutionProfileHandle>,
    /// statement-level retry policy (`set_retry_policy`); overrides whatever the profiles say
    pub retry_policy: Option<Arc<dyn RetryPolicy>>,
}

/// What the caller got: the rows it was handed before the end / the error, and the failure name if it failed.
#[derive(Clone, Debug, Default, PartialEq, Eq)]
pub struct CallOut {
    pub rows: Vec<(i32, String)>,
    pub err: Option<String>,
    /// host id the driver reports as the coordinator of an unpaged success
    pub coordinator: Option<uuid::Uuid>,
}

async fn drain(pager: QueryPager, out: &mut CallOut) {
    if pager.column_specs().len() == 0 {
        // an ignored write error (or a non-rows result) is handed to the caller as an empty, column-less stream
        return;
    }
    let mut stream = match pager.rows_stream::<(i32, String)>() {
        Ok(s) => s,
        Err(e) => {
            out.err = Some(format!("Other:type check: {e}"));
            return;
        }
    };
    while let Some(r) = stream.next().await {
        match r {
            Ok(row) => out.rows.push(row),
            Err(NextRowError::NextPageError(e)) => {
                out.err = Some(next_page_err_name(&e));
                return;
            }
            Err(e) => {
                out.err = Some(format!("Other:{e:?}"));
                return;
            }
        }
    }
}

/// Run one logical request through the session API named by `cfg.api`. Never panics, never times out by itself.
pub async fn call(session: &Session, st: &Stmts, cfg: &CallCfg) -> CallOut {
    let mut out = CallOut::default();
    macro_rules! configure {
        ($s:expr) => {{
            $s.set_is_idempotent(cfg.idempotent);
            if let Some(c) = cfg.consistency {
                $s.set_consistency(c);
            }
            $s.set_execution_profile_handle(cfg.profile.clone());
            $s.set_retry_policy(cfg.retry_policy.clone());
        }};
    }
    let unpaged = |r: Result<scylla::response::query_result::QueryResult, ExecutionError>, out: &mut CallOut| match r {
        Ok(qr) => {
            out.coordinator = Some(qr.request_coordinator().node().host_id);
            if qr.is_rows() {
                match qr.into_rows_result() {
                    Ok(rr) => match rr.rows::<(i32, String)>() {
                        Ok(it) => {
                            for row in it {
                                match row {
                                    Ok(x) => out.rows.push(x),
                                    Err(e) => out.err = Some(format!("Other:row: {e}")),
                                }
                            }
                        }
                        Err(e) => out.err = Some(format!("Other:rows type: {e}")),
                    },
                    Err(e) => out.err = Some(format!("Other:not rows: {e}")),
                }
            }
        }
        Err(e) => out.err = Some(exec_err_name(&e)),
    };
    match cfg.api {
        Api::QueryIns | Api::QuerySel => {
            let text = if cfg.api == Api::QueryIns { format!("{Q_INS_PREFIX}{}, 'q')", cfg.id) } else { format!("{Q_SEL_PREFIX}{}", cfg.id) };
            let mut s = Statement::new(text);
            configure!(s);
            unpaged(session.query_unpaged(s, ()).await, &mut out);
        }
        Api::ExecIns | Api::ExecSel => {
            let mut s = if cfg.api == Api::ExecIns { st.e_ins.clone() } else { st.e_sel.clone() };
            configure!(s);
            unpaged(session.execute_unpaged(&s, (cfg.id,)).await, &mut out);
        }
        Api::Batch => {
            let mut b = Batch::new(BatchType::Logged);
            b.append_statement(st.b_upd.clone());
            b.append_statement(st.b_upd.clone());
            configure!(b);
            unpaged(session.batch(&b, ((cfg.id,), (cfg.id.wrapping_add(1_000_000),))).await, &mut out);
        }
        Api::QueryIter => {
            let mut s = Statement::new(format!("{Q_SEL_PREFIX}{}", cfg.id));
            configure!(s);
            s.set_page_size(1);
            match session.query_iter(s, ()).await {
                Ok(p) => drain(p, &mut out).await,
                Err(PagerExecutionError::NextPageError(e)) => out.err = Some(next_page_err_name(&e)),
                Err(e) => out.err = Some(format!("Other:{e:?}")),
            }
        }
        Api::ExecIter => {
            let mut s = st.e_sel.clone();
            configure!(s);
            s.set_page_size(1);
            match session.execute_iter(s, (cfg.id,)).await {
                Ok(p) => drain(p, &mut out).await,
                Err(PagerExecutionError::NextPageError(e)) => out.err = Some(next_page_err_name(&e)),
                Err(e) => out.err = Some(format!("Other:{e:?}")),
            }
        }
    }
    out
}

// ------------------------------------------------------------------------------------------------
// recording retry policy
// ------------------------------------------------------------------------------------------------

pub fn cl_of(c: Consistency) -> Cl {
    Cl::from_code(consistency_code(c)).unwrap_or_else(|| vcore::machinery_error("consistency without a wire code"))
}
pub fn decision_of(d: &RetryDecision) -> Decision {
    match d {
        RetryDecision::RetrySameTarget(c) => Decision::RetrySame(c.map(cl_of)),
        RetryDecision::RetryNextTarget(c) => Decision::RetryNext(c.map(cl_of)),
        RetryDecision::DontRetry => Decision::DontRetry,
        RetryDecision::IgnoreWriteError => Decision::IgnoreWrite,
        _ => vcore::machinery_error("unknown RetryDecision variant"),
    }
}

#[derive(Clone, Debug)]
pub struct Ask {
    /// retry session (in creation order since the last `clear`) that was asked
    pub session: usize,
    pub error: String,
    pub idempotent: bool,
    pub cl: Cl,
    pub decision: Decision,
}
#[derive(Default, Debug)]
pub struct RecLog {
    pub sessions: usize,
    pub asks: Vec<Ask>,
}
/// Forwards every question to a built-in policy's retry session and records question and answer.
pub struct RecordingPolicy {
    pub inner: Arc<dyn RetryPolicy>,
    pub log: Arc<Mutex<RecLog>>,
}
impl std::fmt::Debug for RecordingPolicy {
    fn fmt(&self, f: &mut std::fmt::Formatter<'_>) -> std::fmt::Result {
        write!(f, "RecordingPolicy({:?})", self.inner)
    }
}
impl RecordingPolicy {
    pub fn new(p: cqlref::retry::Policy) -> RecordingPolicy {
        use scylla::policies::retry::{DefaultRetryPolicy, DowngradingConsistencyRetryPolicy, FallthroughRetryPolicy};
        let inner: Arc<dyn RetryPolicy> = match p {
            cqlref::retry::Policy::Default => Arc::new(DefaultRetryPolicy::new()),
            cqlref::retry::Policy::Downgrading => Arc::new(DowngradingConsistencyRetryPolicy::new()),
            cqlref::retry::Policy::Fallthrough => Arc::new(FallthroughRetryPolicy::new()),
        };
        RecordingPolicy { inner, log: Default::default() }
    }
    pub fn take(&self) -> RecLog {
        std::mem::take(&mut *self.log.lock().unwrap())
    }
}
struct RecSession {
    id: usize,
    inner: Box<dyn RetrySession>,
    log: Arc<Mutex<RecLog>>,
}
impl RetryPolicy for RecordingPolicy {
    fn new_session(&self) -> Box<dyn RetrySession> {
        let id = {
            let mut g = self.log.lock().unwrap();
            g.sessions += 1;
            g.sessions - 1
        };
        Box::new(RecSession { id, inner: self.inner.new_session(), log: self.log.clone() })
    }
}
impl RetrySession for RecSession {
    fn decide_should_retry(&mut self, info: RequestInfo) -> RetryDecision {
        let error = err_name(info.error);
        let idempotent = info.is_idempotent;
        let cl = cl_of(info.consistency);
        let d = self.inner.decide_should_retry(info);
        self.log.lock().unwrap().asks.push(Ask { session: self.id, error, idempotent, cl, decision: decision_of(&d) });
        d
    }
    fn reset(&mut self) {
        self.inner.reset()
    }
}

pub fn runtime(workers: usize) -> tokio::runtime::Runtime {
    tokio::runtime::Builder::new_multi_thread().worker_threads(workers.max(1)).enable_all().build().unwrap_or_else(|e| vcore::machinery_error(&format!("tokio runtime: {e}")))
}
