//! C12 helper: cluster descriptors, deterministic ring construction, cell/key search and the
//! expected first-attempt targets, all computed from `cqlref` (murmur3, shard, placement) -
//! nothing here calls into the driver.
//!
//! A *cell* is (segment of the token space, sharder configuration, owning shard). Segments are the
//! common refinement of the ring's token intervals (plus the two halves of the wrap-around
//! interval) and, for tablet clusters, the tablet boundaries. One key per cell is found by walking
//! the integers 0,1,2,.. (key = 4-byte big-endian int, token = Murmur3 of those bytes).
use cqlref::placement::{RNode, Ring, Strat};
use serde_json::{Value, json};
use std::collections::BTreeSet;

#[derive(Clone, Debug, PartialEq, Eq)]
pub struct Desc {
    /// nodes per datacenter (`dc1`, `dc2`, ..)
    pub dc_sizes: Vec<usize>,
    /// per node (in node index order): None = not sharded, Some((nr_shards, msb_ignore))
    pub shards: Vec<Option<(u16, u8)>>,
    pub vnodes: usize,
    /// PoolSize::PerShard(1) (true) or PoolSize::PerHost(1)
    pub per_shard: bool,
    /// a tablet keyspace `kt` exists and its map is delivered through custom payloads
    pub tablets: usize,
    pub keys_per_cell: usize,
    /// every request is issued this many times (the driver picks among the replicas at random)
    pub repeats: usize,
    /// NAT emulation: plain-port connections land on shard 0, a shard-aware-port connection asking for shard i is
    /// bound to shard (nr - i) % nr, so the shard a connection was asked for differs from the one the server reports
    pub nat: bool,
    /// after the normal phase of the preference-less session the last sharded node "restarts" three times with other
    /// sharding parameters (msb_ignore changed, shard count changed, not sharded) and the cell keys are re-run
    pub restart: bool,
    /// after the normal phase the last node is killed (listener stopped, connections reset); once the client reports it
    /// not connected every request is re-run: the first attempt must go to a replica that is still up
    pub down: bool,
    /// after the normal phase the last node is reported in another datacenter, the session refreshes its metadata
    /// (the driver re-creates the node object and its pool) and every request is re-run against the new placement
    pub moved: bool,
    /// pool size: PerShard(pool_n) / PerHost(pool_n)
    pub pool_n: usize,
    /// SessionBuilder::local_ip_address(an unused address of the mock's loopback block)
    pub local_ip: bool,
    /// SessionBuilder::shard_aware_local_port_range(a narrow custom range, see `Desc::port_range`)
    pub narrow_ports: bool,
}

impl Desc {
    pub fn n(&self) -> usize {
        self.dc_sizes.iter().sum()
    }
    pub fn to_json(&self) -> Value {
        json!({
            "dc_sizes": self.dc_sizes,
            "shards": self.shards.iter().map(|s| s.map(|(n, m)| json!([n, m])).unwrap_or(Value::Null)).collect::<Vec<_>>(),
            "vnodes": self.vnodes,
            "per_shard": self.per_shard,
            "tablets": self.tablets,
            "keys_per_cell": self.keys_per_cell,
            "repeats": self.repeats,
            "nat": self.nat,
            "restart": self.restart,
            "down": self.down,
            "moved": self.moved,
            "pool_n": self.pool_n,
            "local_ip": self.local_ip,
            "narrow_ports": self.narrow_ports,
        })
    }
    pub fn from_json(v: &Value) -> Option<Desc> {
        Some(Desc {
            dc_sizes: v["dc_sizes"].as_array()?.iter().map(|x| x.as_u64().unwrap_or(0) as usize).collect(),
            shards: v["shards"].as_array()?.iter().map(|x| x.as_array().map(|a| (a[0].as_u64().unwrap_or(1) as u16, a[1].as_u64().unwrap_or(0) as u8))).collect(),
            vnodes: v["vnodes"].as_u64()? as usize,
            per_shard: v["per_shard"].as_bool()?,
            tablets: v["tablets"].as_u64()? as usize,
            keys_per_cell: v["keys_per_cell"].as_u64().unwrap_or(1) as usize,
            repeats: v["repeats"].as_u64().unwrap_or(1) as usize,
            nat: v["nat"].as_bool().unwrap_or(false),
            restart: v["restart"].as_bool().unwrap_or(false),
            down: v["down"].as_bool().unwrap_or(false),
            moved: v["moved"].as_bool().unwrap_or(false),
            pool_n: v["pool_n"].as_u64().unwrap_or(1) as usize,
            local_ip: v["local_ip"].as_bool().unwrap_or(false),
            narrow_ports: v["narrow_ports"].as_bool().unwrap_or(false),
        })
    }
    /// The shard-aware local port range the session is configured with (inclusive): the driver's default, or a
    /// 400-port window that depends on the descriptor (so concurrent clusters binding the wildcard address rarely meet).
    pub fn port_range(&self) -> (u16, u16) {
        if self.narrow_ports {
            let lo = 20000 + (vcore::fnv64(self.to_json().to_string().as_bytes()) % 70) as u16 * 400;
            (lo, lo + 399)
        } else {
            (49152, 65535)
        }
    }
    pub fn label(&self) -> String {
        let sh: Vec<String> = self.shards.iter().map(|s| s.map(|(n, m)| format!("{n}/{m}")).unwrap_or_else(|| "U".into())).collect();
        format!("dcs={:?} shards=[{}] vn={} pool={}({}) tablets={}{}", self.dc_sizes, sh.join(","), self.vnodes, if self.per_shard { "per-shard" } else { "per-host" }, self.pool_n, self.tablets, if self.local_ip || self.narrow_ports { format!(" local_ip={} ports={:?}", self.local_ip, self.port_range()) } else { String::new() } + if self.nat { " nat" } else if self.restart { " +restarts" } else if self.down { " +down" } else if self.moved { " +moved" } else { "" })
    }
    fn seed(&self) -> u64 {
        let mut j = self.to_json();
        j.as_object_mut().unwrap().remove("repeats");
        j.as_object_mut().unwrap().remove("keys_per_cell");
        j.as_object_mut().unwrap().remove("restart");
        j.as_object_mut().unwrap().remove("down");
        j.as_object_mut().unwrap().remove("moved");
        j.as_object_mut().unwrap().remove("pool_n");
        j.as_object_mut().unwrap().remove("local_ip");
        j.as_object_mut().unwrap().remove("narrow_ports");
        vcore::fnv64(j.to_string().as_bytes())
    }
}

#[derive(Clone, Debug)]
pub struct NodeCfg {
    pub dc: String,
    pub rack: String,
    pub tokens: Vec<i64>,
    pub shards: Option<(u16, u8)>,
}

#[derive(Clone, Debug)]
pub struct KsCfg {
    pub name: String,
    pub strat: Strat,
    pub tablet_based: bool,
}

#[derive(Clone, Debug)]
pub struct TabletCfg {
    pub first_exclusive: i64,
    pub last: i64,
    /// (node index, shard) - the shard is what the server says, NOT shard_of(token)
    pub replicas: Vec<(usize, i32)>,
}

#[derive(Clone, Debug)]
pub struct Layout {
    pub desc: Desc,
    pub nodes: Vec<NodeCfg>,
    pub ring: Ring,
    pub dcs: Vec<String>,
    pub keyspaces: Vec<KsCfg>,
    /// generations of the tablet map of `kt.t` (second = every tablet migrated, third = first two tablets merged); empty when tablets are off
    pub tablet_maps: Vec<Vec<TabletCfg>>,
}

pub const TABLET_KS: &str = "kt";

/// Deterministic layout from a descriptor: tokens are one per slot of an equal division of the ring,
/// each moved by up to a quarter slot, owners a seeded shuffle of every node repeated `vnodes` times.
pub fn build_layout(desc: &Desc) -> Layout {
    let n = desc.n();
    assert!(n >= 1 && desc.shards.len() == n);
    let mut rng = vcore::Rng::new(desc.seed() | 1);
    let e = n * desc.vnodes;
    let mut owners: Vec<usize> = (0..e).map(|i| i % n).collect();
    for i in (1..e).rev() {
        let j = rng.below(i as u64 + 1) as usize;
        owners.swap(i, j);
    }
    let slot: i128 = (1i128 << 64) / e as i128;
    let mut tokens_of: Vec<Vec<i64>> = vec![Vec::new(); n];
    for (k, owner) in owners.iter().enumerate() {
        let jitter = (rng.below((slot / 2) as u64) as i128) - slot / 4;
        let t = i64::MIN as i128 + k as i128 * slot + slot / 2 + jitter;
        tokens_of[*owner].push(t as i64);
    }
    let mut nodes = Vec::new();
    let mut idx = 0;
    for (d, size) in desc.dc_sizes.iter().enumerate() {
        for k in 0..*size {
            nodes.push(NodeCfg { dc: format!("dc{}", d + 1), rack: format!("r{}", k % 2 + 1), tokens: tokens_of[idx].clone(), shards: desc.shards[idx] });
            idx += 1;
        }
    }
    let rnodes: Vec<RNode> = nodes.iter().map(|x| RNode { dc: Some(x.dc.clone()), rack: Some(x.rack.clone()) }).collect();
    let entries: Vec<(i64, usize)> = nodes.iter().enumerate().flat_map(|(i, x)| x.tokens.iter().map(move |t| (*t, i))).collect();
    let ring = Ring::new(rnodes, entries);
    let dcs: Vec<String> = (0..desc.dc_sizes.len()).map(|d| format!("dc{}", d + 1)).collect();
    let mut keyspaces = vec![
        KsCfg { name: "s1".into(), strat: Strat::Simple(1), tablet_based: false },
        KsCfg { name: "s2".into(), strat: Strat::Simple(2), tablet_based: false },
        KsCfg { name: "s3".into(), strat: Strat::Simple(3), tablet_based: false },
        KsCfg { name: "n11".into(), strat: Strat::Nts(vec![("dc1".into(), 1), ("dc2".into(), 1)]), tablet_based: false },
        KsCfg { name: "n21".into(), strat: Strat::Nts(vec![("dc1".into(), 2), ("dc2".into(), 1), ("dc3".into(), 1)]), tablet_based: false },
        KsCfg { name: "n02".into(), strat: Strat::Nts(vec![("dc2".into(), 2)]), tablet_based: false },
        // an entry with replication factor 0 is legal CQL: no replicas in dc1
        KsCfg { name: "n01".into(), strat: Strat::Nts(vec![("dc1".into(), 0), ("dc2".into(), 1)]), tablet_based: false },
    ];
    let mut tablet_maps = Vec::new();
    if desc.tablets > 0 {
        keyspaces.push(KsCfg { name: TABLET_KS.into(), strat: Strat::Nts(vec![("dc1".into(), 1), ("dc2".into(), 1)]), tablet_based: true });
        for generation in 0..2usize {
            let t = desc.tablets;
            let width: i128 = (1i128 << 64) / t as i128;
            let mut map = Vec::new();
            let mut first = i64::MIN;
            for j in 0..t {
                // boundaries deliberately unrelated to the ring's tokens
                let last = if j + 1 == t { i64::MAX } else { (i64::MIN as i128 + (j as i128 + 1) * width + width / 7) as i64 };
                let a = (j + generation) % n;
                let b = (j + generation + 1 + j / n) % n;
                let mut replicas = Vec::new();
                for (k, node) in [a, b].into_iter().enumerate() {
                    if replicas.iter().any(|(x, _)| *x == node) {
                        continue;
                    }
                    let shard = match desc.shards[node] {
                        Some((nr, _)) => ((j + k + generation) % nr as usize) as i32,
                        None => 0,
                    };
                    replicas.push((node, shard));
                }
                map.push(TabletCfg { first_exclusive: first, last, replicas });
                first = last;
            }
            tablet_maps.push(map);
        }
        // third generation ("tablet merge"): the first two tablets of the second generation become one tablet with
        // other replicas; the client knows (a,b] and (b,c] and then learns (a,c]
        if desc.tablets >= 2 {
            let g1 = tablet_maps[1].clone();
            let generation = 3usize; // offset 3: for n >= 3 the merged tablet's replicas differ from both tablets it replaces
            let (a, b) = (generation % n, (generation + 1) % n);
            let mut replicas = Vec::new();
            for (k, node) in [a, b].into_iter().enumerate() {
                if replicas.iter().any(|(x, _)| *x == node) {
                    continue;
                }
                let shard = match desc.shards[node] {
                    Some((nr, _)) => ((k + generation) % nr as usize) as i32,
                    None => 0,
                };
                replicas.push((node, shard));
            }
            let mut g2 = vec![TabletCfg { first_exclusive: g1[0].first_exclusive, last: g1[1].last, replicas }];
            g2.extend(g1[2..].iter().cloned());
            tablet_maps.push(g2);
        }
    }
    Layout { desc: desc.clone(), nodes, ring, dcs, keyspaces, tablet_maps }
}

impl Layout {
    /// Distinct sharder configurations present in the cluster.
    pub fn shard_cfgs(&self) -> Vec<(u16, u8)> {
        let s: BTreeSet<(u16, u8)> = self.nodes.iter().filter_map(|n| n.shards).collect();
        s.into_iter().collect()
    }
    pub fn tablet_of(&self, generation: usize, token: i64) -> Option<usize> {
        self.tablet_maps.get(generation)?.iter().position(|t| t.first_exclusive < token && token <= t.last)
    }
    pub fn node_dc(&self, node: usize) -> &str {
        &self.nodes[node].dc
    }
}

pub fn token_of_key(key: i32) -> i64 {
    cqlref::murmur3::murmur3_token(&key.to_be_bytes())
}

#[derive(Clone, Debug)]
pub struct CellKey {
    pub key: i32,
    pub token: i64,
    pub segment: usize,
}

#[derive(Clone, Debug, Default)]
pub struct CellStats {
    pub segments: usize,
    /// cells holding at least `THIN` tokens: these must all be hit
    pub cells_total: usize,
    pub cells_hit: usize,
    /// non-empty cells with fewer tokens than `THIN` (a sliver where a shard boundary falls next to a segment boundary)
    pub cells_thin: usize,
    pub cells_thin_hit: usize,
    /// (segment, sharder, shard) combinations that contain no token at all
    pub cells_empty: usize,
    pub keys_scanned: u64,
}

/// A cell thinner than this many tokens (2^64 / 16384) is not required to be hit by the key search.
pub const THIN: u128 = 1u128 << 50;

/// Number of tokens of [lo, hi] (inclusive) owned by every shard of a (nr, msb) sharder, from the
/// reference `shard_of` alone: the function is periodic with period 2^(64-msb) tokens and a step
/// function with nr steps inside one period. Windows of at least one period hold every shard
/// (reported as width/nr each, exact enough for the THIN threshold); shorter windows are walked
/// run by run with a binary search for the end of each run.
pub fn shard_measures(lo: i64, hi: i64, nr: u16, msb: u8) -> Vec<u128> {
    let width: u128 = (hi as i128 - lo as i128 + 1) as u128;
    let period: u128 = 1u128 << (64 - msb as u32);
    let mut m = vec![0u128; nr as usize];
    if width >= period {
        for x in m.iter_mut() {
            *x = width / nr as u128;
        }
        return m;
    }
    let step: i128 = ((period / nr as u128).max(1)) as i128;
    let mut t: i128 = lo as i128;
    while t <= hi as i128 {
        let s = cqlref::shard::shard_of(t as i64, nr, msb);
        // the window [t, t+step-1] cannot hold a whole foreign run, so "== s" is true then false inside it
        let (mut a, mut b) = (t, (t + step - 1).min(hi as i128));
        while a < b {
            let mid = (a + b + 1) / 2;
            if cqlref::shard::shard_of(mid as i64, nr, msb) == s {
                a = mid;
            } else {
                b = mid - 1;
            }
        }
        m[s as usize] += (a - t + 1) as u128;
        t = a + 1;
    }
    m
}

/// Greedy cover: walk keys 0,1,2,.. and keep a key iff it still lacks `per_cell` hits in one of its
/// cells (segment x sharder configuration x owning shard; segment alone when nothing is sharded).
pub fn find_cell_keys(layout: &Layout, per_cell: usize, max_scan: u64) -> (Vec<CellKey>, CellStats) {
    let mut bounds: BTreeSet<i64> = layout.ring.entries.iter().map(|e| e.0).collect();
    for m in &layout.tablet_maps {
        for t in m {
            bounds.insert(t.last);
        }
    }
    bounds.insert(i64::MAX); // tokens above the highest ring token form their own segment
    let bounds: Vec<i64> = bounds.into_iter().collect();
    let cfgs = layout.shard_cfgs();
    let lanes: usize = if cfgs.is_empty() { 1 } else { cfgs.iter().map(|c| c.0 as usize).sum() };
    let lane_base: Vec<usize> = cfgs.iter().scan(0usize, |acc, c| { let b = *acc; *acc += c.0 as usize; Some(b) }).collect();
    let total = bounds.len() * lanes;
    // 0 = empty, 1 = thin, 2 = required
    let mut class = vec![2u8; total];
    for (seg, hi) in bounds.iter().enumerate() {
        // i64::MIN is not a token (the driver folds it onto MAX), so segment 0 starts at MIN+1
        let lo = if seg == 0 { i64::MIN + 1 } else { bounds[seg - 1] + 1 };
        for (i, (nr, msb)) in cfgs.iter().enumerate() {
            for (sh, measure) in shard_measures(lo, *hi, *nr, *msb).into_iter().enumerate() {
                class[seg * lanes + lane_base[i] + sh] = if measure == 0 { 0 } else if measure < THIN { 1 } else { 2 };
            }
        }
    }
    let mut hits = vec![0usize; total];
    let mut missing = class.iter().filter(|c| **c == 2).count();
    let mut out = Vec::new();
    let mut scanned = 0u64;
    let mut k: i32 = 0;
    while missing > 0 && scanned < max_scan {
        let token = token_of_key(k);
        scanned += 1;
        let seg = bounds.iter().position(|b| token <= *b).unwrap();
        let cells: Vec<usize> = if cfgs.is_empty() {
            vec![seg]
        } else {
            cfgs.iter().enumerate().map(|(i, (nr, msb))| seg * lanes + lane_base[i] + cqlref::shard::shard_of(token, *nr, *msb) as usize).collect()
        };
        for c in &cells {
            assert!(class[*c] != 0, "shard_measures calls a cell empty that holds token {token}");
        }
        if cells.iter().any(|c| hits[*c] < per_cell) {
            for c in cells {
                hits[c] += 1;
                if hits[c] == per_cell && class[c] == 2 {
                    missing -= 1;
                }
            }
            out.push(CellKey { key: k, token, segment: seg });
        }
        k += 1;
    }
    let count = |cl: u8, hit: bool| (0..total).filter(|c| class[*c] == cl && (!hit || hits[*c] >= per_cell)).count();
    (
        out,
        CellStats { segments: bounds.len(), cells_total: count(2, false), cells_hit: count(2, true), cells_thin: count(1, false), cells_thin_hit: count(1, true), cells_empty: count(0, false), keys_scanned: scanned },
    )
}

#[derive(Clone, Debug, PartialEq, Eq)]
pub enum Policy {
    Default,
    PreferDc { dc: String, failover: bool },
    /// DC + rack preference; the property speaks about the datacenter only, so the expectation is PreferDc's
    PreferRack { dc: String, rack: String, failover: bool },
    /// the datacenter is preferred in the SESSION configuration (`SessionBuilder::prefer_datacenter`), the policy is a
    /// DefaultPolicy without a preference of its own
    SessionPrefer { dc: String, failover: bool },
}
impl Policy {
    pub fn label(&self) -> String {
        match self {
            Policy::Default => "default".into(),
            Policy::PreferDc { dc, failover } => format!("prefer-{dc}-{}", if *failover { "failover" } else { "nofailover" }),
            Policy::PreferRack { dc, rack, failover } => format!("prefer-{dc}/{rack}-{}", if *failover { "failover" } else { "nofailover" }),
            Policy::SessionPrefer { dc, failover } => format!("session-prefer-{dc}-{}", if *failover { "failover" } else { "nofailover" }),
        }
    }
    pub fn parse(s: &str) -> Option<Policy> {
        if s == "default" {
            return Some(Policy::Default);
        }
        if let Some(rest) = s.strip_prefix("session-prefer-") {
            let (dc, f) = rest.rsplit_once('-')?;
            return Some(Policy::SessionPrefer { dc: dc.into(), failover: f == "failover" });
        }
        let rest = s.strip_prefix("prefer-")?;
        let (dc, f) = rest.rsplit_once('-')?;
        match dc.split_once('/') {
            Some((d, r)) => Some(Policy::PreferRack { dc: d.into(), rack: r.into(), failover: f == "failover" }),
            None => Some(Policy::PreferDc { dc: dc.into(), failover: f == "failover" }),
        }
    }
}

pub fn policies(layout: &Layout) -> Vec<Policy> {
    let mut v = vec![Policy::Default];
    for dc in &layout.dcs {
        v.push(Policy::PreferDc { dc: dc.clone(), failover: true });
        v.push(Policy::PreferDc { dc: dc.clone(), failover: false });
    }
    v.push(Policy::PreferRack { dc: "dc1".into(), rack: "r2".into(), failover: true });
    if layout.desc.keys_per_cell > 1 {
        // thorough only
        v.push(Policy::PreferRack { dc: "dc1".into(), rack: "r2".into(), failover: false });
    }
    v
}

pub fn session_policies(dc: &str) -> Vec<Policy> {
    vec![Policy::SessionPrefer { dc: dc.into(), failover: true }, Policy::SessionPrefer { dc: dc.into(), failover: false }]
}

/// What the property allows as target of the first attempt.
#[derive(Clone, Debug, PartialEq, Eq)]
pub enum Allowed {
    /// no replica among the nodes the policy permits: the property says nothing
    Unconstrained { why: &'static str },
    /// vnode table: any of these nodes; on a sharded node the shard is shard_of(token) of THAT node
    Nodes { nodes: Vec<usize>, narrowed_to_dc: bool },
    /// tablet table: any of these (node, shard) pairs
    Pairs { pairs: Vec<(usize, i32)>, narrowed_to_dc: bool },
}

fn narrow<T: Clone>(all: Vec<T>, node_of: impl Fn(&T) -> usize, layout: &Layout, policy: &Policy, down: &BTreeSet<usize>) -> (Vec<T>, bool, Option<&'static str>) {
    if all.is_empty() {
        return (all, false, Some("no replica at all"));
    }
    // "reachable": the nodes that are up
    let all: Vec<T> = all.into_iter().filter(|x| !down.contains(&node_of(x))).collect();
    if all.is_empty() {
        return (all, false, Some("every replica is down"));
    }
    match policy {
        Policy::Default => (all, false, None),
        Policy::PreferDc { dc, failover } | Policy::PreferRack { dc, failover, .. } | Policy::SessionPrefer { dc, failover } => {
            let local: Vec<T> = all.iter().filter(|x| layout.node_dc(node_of(x)) == dc).cloned().collect();
            if !local.is_empty() {
                let narrowed = local.len() < all.len();
                (local, narrowed, None)
            } else if *failover {
                (all, false, None)
            } else {
                (Vec::new(), false, Some("no reachable replica in the preferred datacenter and failover is not permitted"))
            }
        }
    }
}

/// Reference answer for a vnode keyspace; `down` = nodes that are not reachable.
pub fn allowed_vnode(layout: &Layout, strat: &Strat, policy: &Policy, token: i64, down: &BTreeSet<usize>) -> Allowed {
    let all = layout.ring.replicas_ring_order(token, strat);
    let (nodes, narrowed_to_dc, why) = narrow(all, |x| *x, layout, policy, down);
    match why {
        Some(why) => Allowed::Unconstrained { why },
        None => Allowed::Nodes { nodes, narrowed_to_dc },
    }
}

/// Reference answer for the tablet table once the tablet of `generation` covering the token is known.
pub fn allowed_tablet(layout: &Layout, generation: usize, policy: &Policy, token: i64, down: &BTreeSet<usize>) -> Allowed {
    let Some(t) = layout.tablet_of(generation, token) else { return Allowed::Unconstrained { why: "no tablet covers the token" } };
    let all = layout.tablet_maps[generation][t].replicas.clone();
    let (pairs, narrowed_to_dc, why) = narrow(all, |x| x.0, layout, policy, down);
    match why {
        Some(why) => Allowed::Unconstrained { why },
        None => Allowed::Pairs { pairs, narrowed_to_dc },
    }
}

/// Cluster descriptors of a tier, simplest first.
pub fn enumerate(thorough: bool) -> Vec<Desc> {
    let max_nodes = if thorough { 6 } else { 4 };
    let mut dc_layouts: Vec<Vec<usize>> = Vec::new();
    for n in 1..=max_nodes {
        dc_layouts.push(vec![n]);
        for a in (n.div_ceil(2)..n).rev() {
            dc_layouts.push(vec![a, n - a]);
        }
    }
    // three datacenters
    dc_layouts.push(vec![1, 1, 1]);
    dc_layouts.push(vec![2, 1, 1]);
    if thorough {
        dc_layouts.push(vec![2, 2, 1]);
        dc_layouts.push(vec![2, 2, 2]);
        dc_layouts.push(vec![3, 2, 1]);
    }
    // shard patterns, cycled over the nodes; the mixed ones give every node another sharder
    let u = None;
    let s = |n: u16, m: u8| Some((n, m));
    let mut patterns: Vec<Vec<Option<(u16, u8)>>> = vec![
        vec![u],
        vec![s(1, 12)],
        vec![s(2, 12)],
        vec![s(3, 12)],
        vec![s(3, 12), s(2, 12), u, s(1, 12)],
        vec![s(2, 12), s(3, 0), s(3, 12), s(1, 12)],
        // the contact point / control-connection host is not sharded, the others are
        vec![u, s(3, 12), s(2, 12)],
    ];
    if thorough {
        patterns.push(vec![s(8, 12)]);
        patterns.push(vec![s(8, 12), s(3, 12), s(2, 5), u, s(1, 0), s(8, 0)]);
        patterns.push(vec![u, s(8, 12), s(8, 3)]);
    }
    let mut out = Vec::new();
    // quick: one pass per request - every cell is still drawn once per policy and statement kind (>= 20 random replica
    // picks per cell and keyspace); the down phase doubles the plain statements itself
    let (keys_per_cell, repeats) = if thorough { (2, 1) } else { (1, 1) };
    for dcs in &dc_layouts {
        let n: usize = dcs.iter().sum();
        for (pi, pat) in patterns.iter().enumerate() {
            // three datacenters: unsharded and the per-node mixes (index 8 = the thorough 8-shard mix)
            if dcs.len() >= 3 && ![0usize, 4, 5, 8].contains(&pi) {
                continue;
            }
            let shards: Vec<Option<(u16, u8)>> = (0..n).map(|i| pat[i % pat.len()]).collect();
            for per_shard in [true, false] {
                for tablets in [0usize, if thorough { 5 } else { 3 }] {
                    if tablets > 0 && shards.iter().any(|x| x.is_none()) {
                        continue; // tablets exist on ScyllaDB nodes only
                    }
                    for vnodes in if thorough { vec![1usize, 2, 3, 4] } else { vec![1usize, 2, 3] } {
                        if !per_shard && vnodes != 2 && !(thorough && vnodes == 4) {
                            continue; // one-connection-per-host pools with 2 vnodes only (thorough: 2 and 4)
                        }
                        if thorough && vnodes == 4 && n > 4 {
                            continue;
                        }
                        out.push(Desc { dc_sizes: dcs.clone(), shards: shards.clone(), vnodes, per_shard, tablets, keys_per_cell, repeats, nat: false, restart: vnodes == 2 && shards.iter().any(|x| x.is_some()), down: vnodes == 1 && n >= 2, moved: vnodes == 3 && n >= 2, pool_n: 1, local_ip: false, narrow_ports: false });
                    }
                }
            }
        }
    }
    // NAT emulation: per-shard pools towards nodes with >= 3 shards (with 2 shards the map cannot move a shard)
    for dcs in [vec![1usize], vec![2], vec![2, 1]] {
        let n: usize = dcs.iter().sum();
        for nr in if thorough { vec![3u16, 8] } else { vec![3u16] } {
            for tablets in [0usize, 3] {
                out.push(Desc { dc_sizes: dcs.clone(), shards: vec![Some((nr, 12)); n], vnodes: 2, per_shard: true, tablets, keys_per_cell, repeats, nat: true, restart: false, down: false, moved: false, pool_n: 1, local_ip: false, narrow_ports: false });
            }
        }
    }
    // pool sizes above one: PerShard(2) and PerHost(3)
    let big_pool_layouts: Vec<Vec<usize>> = if thorough { vec![vec![1], vec![2], vec![2, 1], vec![2, 2], vec![3, 2, 1]] } else { vec![vec![1], vec![2, 1]] };
    for dcs in big_pool_layouts {
        let n: usize = dcs.iter().sum();
        for pat in [&patterns[3], &patterns[5]] {
            let shards: Vec<Option<(u16, u8)>> = (0..n).map(|i| pat[i % pat.len()]).collect();
            for (per_shard, pool_n) in [(true, 2usize), (false, 3)] {
                for tablets in if thorough { vec![0usize, 3] } else { vec![0usize] } {
                    out.push(Desc { dc_sizes: dcs.clone(), shards: shards.clone(), vnodes: 2, per_shard, tablets, keys_per_cell, repeats, nat: false, restart: per_shard, down: false, moved: false, pool_n, local_ip: false, narrow_ports: false });
                }
            }
        }
    }
    out.extend(port_config_clusters(thorough, true));
    out.dedup();
    out
}

/// Session configurations that decide where a shard-aware connection leaves from: {local IP address set / unset} x
/// {default shard-aware local port range / a narrow custom one}, per-shard pools towards sharded nodes.
/// `only_non_default` leaves out the (unset, default) combination, which every other cluster already has.
pub fn port_config_clusters(thorough: bool, only_non_default: bool) -> Vec<Desc> {
    let s = |n: u16, m: u8| Some((n, m));
    let pats: Vec<Vec<Option<(u16, u8)>>> = if thorough { vec![vec![s(3, 12)], vec![s(3, 12), s(2, 12), None, s(1, 12)], vec![s(8, 12)]] } else { vec![vec![s(3, 12)], vec![s(3, 12), s(2, 12), None, s(1, 12)]] };
    let mut out = Vec::new();
    for dcs in [vec![1usize], vec![2], vec![2, 1]] {
        let n: usize = dcs.iter().sum();
        for pat in &pats {
            let shards: Vec<Option<(u16, u8)>> = (0..n).map(|i| pat[i % pat.len()]).collect();
            for pool_n in [1usize, 2] {
                for (local_ip, narrow_ports) in [(false, false), (true, false), (false, true), (true, true)] {
                    if only_non_default && !local_ip && !narrow_ports {
                        continue;
                    }
                    out.push(Desc { dc_sizes: dcs.clone(), shards: shards.clone(), vnodes: 2, per_shard: true, tablets: 0, keys_per_cell: if thorough { 2 } else { 1 }, repeats: 1, nat: false, restart: true, down: false, moved: false, pool_n, local_ip, narrow_ports });
                }
            }
        }
    }
    out
}
