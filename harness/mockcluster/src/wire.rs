//! CQL binary protocol v4 codec for the mock, written from the protocol specification
//! (native_protocol_v4.spec + the ScyllaDB extensions the driver negotiates). Shares no code with
//! the driver: requests are parsed into `Request`, responses are built from `Response`/`Envelope`.
//!
//! Notation of the spec: [short] u16, [int] i32, [long] i64, [string] short+utf8,
//! [long string] int+utf8, [bytes] int+bytes (negative = null), [short bytes] short+bytes,
//! [string list], [string map], [string multimap], [bytes map], [inet] len-byte+addr+int port.

use std::collections::BTreeMap;
use std::net::IpAddr;

pub const HEADER_LEN: usize = 9;

pub mod flag {
    pub const COMPRESSION: u8 = 0x01;
    pub const TRACING: u8 = 0x02;
    pub const CUSTOM_PAYLOAD: u8 = 0x04;
    pub const WARNING: u8 = 0x08;
}

pub mod op {
    pub const ERROR: u8 = 0x00;
    pub const STARTUP: u8 = 0x01;
    pub const READY: u8 = 0x02;
    pub const AUTHENTICATE: u8 = 0x03;
    pub const OPTIONS: u8 = 0x05;
    pub const SUPPORTED: u8 = 0x06;
    pub const QUERY: u8 = 0x07;
    pub const RESULT: u8 = 0x08;
    pub const PREPARE: u8 = 0x09;
    pub const EXECUTE: u8 = 0x0A;
    pub const REGISTER: u8 = 0x0B;
    pub const EVENT: u8 = 0x0C;
    pub const BATCH: u8 = 0x0D;
    pub const AUTH_CHALLENGE: u8 = 0x0E;
    pub const AUTH_RESPONSE: u8 = 0x0F;
    pub const AUTH_SUCCESS: u8 = 0x10;
}

/// Request opcodes as a small enum (what tests match on).
#[derive(Clone, Copy, Debug, PartialEq, Eq, Hash, PartialOrd, Ord)]
pub enum Opcode {
    Startup,
    Options,
    Query,
    Prepare,
    Execute,
    Register,
    Batch,
    AuthResponse,
    Other(u8),
}
impl Opcode {
    pub fn from_u8(b: u8) -> Opcode {
        match b {
            op::STARTUP => Opcode::Startup,
            op::OPTIONS => Opcode::Options,
            op::QUERY => Opcode::Query,
            op::PREPARE => Opcode::Prepare,
            op::EXECUTE => Opcode::Execute,
            op::REGISTER => Opcode::Register,
            op::BATCH => Opcode::Batch,
            op::AUTH_RESPONSE => Opcode::AuthResponse,
            x => Opcode::Other(x),
        }
    }
    pub fn name(self) -> &'static str {
        match self {
            Opcode::Startup => "STARTUP",
            Opcode::Options => "OPTIONS",
            Opcode::Query => "QUERY",
            Opcode::Prepare => "PREPARE",
            Opcode::Execute => "EXECUTE",
            Opcode::Register => "REGISTER",
            Opcode::Batch => "BATCH",
            Opcode::AuthResponse => "AUTH_RESPONSE",
            Opcode::Other(_) => "OTHER",
        }
    }
}

#[derive(Clone, Copy, Debug, PartialEq, Eq)]
pub struct Header {
    pub version: u8,
    pub flags: u8,
    pub stream: i16,
    pub opcode: u8,
    pub length: u32,
}
impl Header {
    pub fn parse(b: &[u8; HEADER_LEN]) -> Header {
        Header {
            version: b[0],
            flags: b[1],
            stream: i16::from_be_bytes([b[2], b[3]]),
            opcode: b[4],
            length: u32::from_be_bytes([b[5], b[6], b[7], b[8]]),
        }
    }
    pub fn encode(&self) -> [u8; HEADER_LEN] {
        let s = self.stream.to_be_bytes();
        let l = self.length.to_be_bytes();
        [self.version, self.flags, s[0], s[1], self.opcode, l[0], l[1], l[2], l[3]]
    }
}

// ------------------------------------------------------------------------------------------------
// primitive reader / writer
// ------------------------------------------------------------------------------------------------

#[derive(Debug, Clone, PartialEq, Eq)]
pub struct WireError(pub String);
impl std::fmt::Display for WireError {
    fn fmt(&self, f: &mut std::fmt::Formatter<'_>) -> std::fmt::Result {
        write!(f, "{}", self.0)
    }
}
type WResult<T> = Result<T, WireError>;

pub struct Reader<'a> {
    pub buf: &'a [u8],
    pub pos: usize,
}
impl<'a> Reader<'a> {
    pub fn new(buf: &'a [u8]) -> Self {
        Reader { buf, pos: 0 }
    }
    pub fn remaining(&self) -> usize {
        self.buf.len() - self.pos
    }
    pub fn take(&mut self, n: usize) -> WResult<&'a [u8]> {
        if self.remaining() < n {
            return Err(WireError(format!("need {n} bytes at offset {}, have {}", self.pos, self.remaining())));
        }
        let s = &self.buf[self.pos..self.pos + n];
        self.pos += n;
        Ok(s)
    }
    pub fn u8(&mut self) -> WResult<u8> {
        Ok(self.take(1)?[0])
    }
    pub fn short(&mut self) -> WResult<u16> {
        let b = self.take(2)?;
        Ok(u16::from_be_bytes([b[0], b[1]]))
    }
    pub fn int(&mut self) -> WResult<i32> {
        let b = self.take(4)?;
        Ok(i32::from_be_bytes([b[0], b[1], b[2], b[3]]))
    }
    pub fn long(&mut self) -> WResult<i64> {
        let b = self.take(8)?;
        Ok(i64::from_be_bytes(b.try_into().unwrap()))
    }
    pub fn string(&mut self) -> WResult<String> {
        let n = self.short()? as usize;
        let b = self.take(n)?;
        String::from_utf8(b.to_vec()).map_err(|e| WireError(format!("[string] not utf-8: {e}")))
    }
    pub fn long_string(&mut self) -> WResult<String> {
        let n = self.int()?;
        if n < 0 {
            return Err(WireError(format!("[long string] negative length {n}")));
        }
        let b = self.take(n as usize)?;
        String::from_utf8(b.to_vec()).map_err(|e| WireError(format!("[long string] not utf-8: {e}")))
    }
    pub fn bytes(&mut self) -> WResult<Option<Vec<u8>>> {
        let n = self.int()?;
        if n < 0 {
            return Ok(None);
        }
        Ok(Some(self.take(n as usize)?.to_vec()))
    }
    pub fn short_bytes(&mut self) -> WResult<Vec<u8>> {
        let n = self.short()? as usize;
        Ok(self.take(n)?.to_vec())
    }
    pub fn value(&mut self) -> WResult<Val> {
        let n = self.int()?;
        match n {
            -1 => Ok(Val::Null),
            -2 => Ok(Val::Unset),
            n if n < 0 => Err(WireError(format!("[value] length {n}"))),
            n => Ok(Val::Bytes(self.take(n as usize)?.to_vec())),
        }
    }
    pub fn string_list(&mut self) -> WResult<Vec<String>> {
        let n = self.short()?;
        (0..n).map(|_| self.string()).collect()
    }
    pub fn string_map(&mut self) -> WResult<BTreeMap<String, String>> {
        let n = self.short()?;
        let mut m = BTreeMap::new();
        for _ in 0..n {
            let k = self.string()?;
            let v = self.string()?;
            m.insert(k, v);
        }
        Ok(m)
    }
    pub fn bytes_map(&mut self) -> WResult<Vec<(String, Option<Vec<u8>>)>> {
        let n = self.short()?;
        let mut m = Vec::new();
        for _ in 0..n {
            let k = self.string()?;
            let v = self.bytes()?;
            m.push((k, v));
        }
        Ok(m)
    }
}

#[derive(Default, Clone, Debug)]
pub struct Writer {
    pub buf: Vec<u8>,
}
impl Writer {
    pub fn new() -> Self {
        Writer { buf: Vec::new() }
    }
    pub fn u8(&mut self, v: u8) -> &mut Self {
        self.buf.push(v);
        self
    }
    pub fn short(&mut self, v: u16) -> &mut Self {
        self.buf.extend_from_slice(&v.to_be_bytes());
        self
    }
    pub fn int(&mut self, v: i32) -> &mut Self {
        self.buf.extend_from_slice(&v.to_be_bytes());
        self
    }
    pub fn long(&mut self, v: i64) -> &mut Self {
        self.buf.extend_from_slice(&v.to_be_bytes());
        self
    }
    pub fn raw(&mut self, b: &[u8]) -> &mut Self {
        self.buf.extend_from_slice(b);
        self
    }
    pub fn string(&mut self, s: &str) -> &mut Self {
        assert!(s.len() <= u16::MAX as usize);
        self.short(s.len() as u16);
        self.raw(s.as_bytes())
    }
    pub fn long_string(&mut self, s: &str) -> &mut Self {
        self.int(s.len() as i32);
        self.raw(s.as_bytes())
    }
    pub fn bytes(&mut self, b: Option<&[u8]>) -> &mut Self {
        match b {
            None => self.int(-1),
            Some(b) => {
                self.int(b.len() as i32);
                self.raw(b)
            }
        }
    }
    pub fn short_bytes(&mut self, b: &[u8]) -> &mut Self {
        assert!(b.len() <= u16::MAX as usize);
        self.short(b.len() as u16);
        self.raw(b)
    }
    pub fn string_list(&mut self, l: &[String]) -> &mut Self {
        self.short(l.len() as u16);
        for s in l {
            self.string(s);
        }
        self
    }
    pub fn inet(&mut self, ip: IpAddr, port: i32) -> &mut Self {
        match ip {
            IpAddr::V4(a) => {
                self.u8(4);
                self.raw(&a.octets());
            }
            IpAddr::V6(a) => {
                self.u8(16);
                self.raw(&a.octets());
            }
        }
        self.int(port)
    }
}

// ------------------------------------------------------------------------------------------------
// requests
// ------------------------------------------------------------------------------------------------

#[derive(Clone, Debug, PartialEq, Eq)]
pub enum Val {
    Null,
    Unset,
    Bytes(Vec<u8>),
}
impl Val {
    pub fn as_bytes(&self) -> Option<&[u8]> {
        match self {
            Val::Bytes(b) => Some(b),
            _ => None,
        }
    }
}

/// `<query_parameters>` of QUERY and EXECUTE.
#[derive(Clone, Debug, PartialEq, Eq, Default)]
pub struct QueryParams {
    pub consistency: u16,
    pub flags: u8,
    pub values: Vec<Val>,
    /// Some(names) iff flag 0x40 (names for values) was set
    pub names: Option<Vec<String>>,
    pub skip_metadata: bool,
    pub page_size: Option<i32>,
    pub paging_state: Option<Vec<u8>>,
    pub serial_consistency: Option<u16>,
    pub timestamp: Option<i64>,
}

#[derive(Clone, Debug, PartialEq, Eq)]
pub enum BatchStmt {
    Query { text: String, values: Vec<Val> },
    Prepared { id: Vec<u8>, values: Vec<Val> },
}

#[derive(Clone, Debug, PartialEq, Eq)]
pub enum Request {
    Startup { options: BTreeMap<String, String> },
    Options,
    AuthResponse { token: Option<Vec<u8>> },
    Register { events: Vec<String> },
    Query { text: String, params: QueryParams },
    Prepare { text: String },
    Execute { id: Vec<u8>, result_metadata_id: Option<Vec<u8>>, params: QueryParams },
    Batch { kind: u8, statements: Vec<BatchStmt>, consistency: u16, flags: u8, serial_consistency: Option<u16>, timestamp: Option<i64> },
    /// Unknown opcode or a body that does not parse; the mock answers with a protocol error.
    Malformed { opcode: u8, why: String },
}

impl Request {
    /// Statement text of QUERY / PREPARE.
    pub fn text(&self) -> Option<&str> {
        match self {
            Request::Query { text, .. } | Request::Prepare { text } => Some(text),
            _ => None,
        }
    }
    pub fn params(&self) -> Option<&QueryParams> {
        match self {
            Request::Query { params, .. } | Request::Execute { params, .. } => Some(params),
            _ => None,
        }
    }
    pub fn prepared_id(&self) -> Option<&[u8]> {
        match self {
            Request::Execute { id, .. } => Some(id),
            _ => None,
        }
    }
}

/// What the parser must know about the connection (negotiated in STARTUP).
#[derive(Clone, Copy, Debug, Default)]
pub struct ParseCtx {
    /// SCYLLA_USE_METADATA_ID negotiated: EXECUTE carries a result metadata id after the statement id
    pub metadata_id: bool,
}

fn parse_query_params(r: &mut Reader) -> WResult<QueryParams> {
    let consistency = r.short()?;
    let flags = r.u8()?;
    let mut p = QueryParams { consistency, flags, ..Default::default() };
    if flags & 0x01 != 0 {
        let n = r.short()?;
        let named = flags & 0x40 != 0;
        let mut names = Vec::new();
        for _ in 0..n {
            if named {
                names.push(r.string()?);
            }
            p.values.push(r.value()?);
        }
        if named {
            p.names = Some(names);
        }
    }
    p.skip_metadata = flags & 0x02 != 0;
    if flags & 0x04 != 0 {
        p.page_size = Some(r.int()?);
    }
    if flags & 0x08 != 0 {
        p.paging_state = r.bytes()?;
    }
    if flags & 0x10 != 0 {
        p.serial_consistency = Some(r.short()?);
    }
    if flags & 0x20 != 0 {
        p.timestamp = Some(r.long()?);
    }
    Ok(p)
}

/// Parse a request body. `frame_flags` are the header flags (a custom payload, if flagged, is skipped
/// and returned separately).
pub fn parse_request(opcode: u8, frame_flags: u8, body: &[u8], ctx: ParseCtx) -> (Request, Vec<(String, Option<Vec<u8>>)>) {
    let mut r = Reader::new(body);
    let mut payload = Vec::new();
    let res: WResult<Request> = (|| {
        if frame_flags & flag::COMPRESSION != 0 {
            return Err(WireError("compressed request body but no compression was negotiated".into()));
        }
        if frame_flags & flag::CUSTOM_PAYLOAD != 0 {
            payload = r.bytes_map()?;
        }
        let req = match opcode {
            op::STARTUP => Request::Startup { options: r.string_map()? },
            op::OPTIONS => Request::Options,
            op::AUTH_RESPONSE => Request::AuthResponse { token: r.bytes()? },
            op::REGISTER => Request::Register { events: r.string_list()? },
            op::QUERY => {
                let text = r.long_string()?;
                let params = parse_query_params(&mut r)?;
                Request::Query { text, params }
            }
            op::PREPARE => Request::Prepare { text: r.long_string()? },
            op::EXECUTE => {
                let id = r.short_bytes()?;
                let result_metadata_id = if ctx.metadata_id { Some(r.short_bytes()?) } else { None };
                let params = parse_query_params(&mut r)?;
                Request::Execute { id, result_metadata_id, params }
            }
            op::BATCH => {
                let kind = r.u8()?;
                let n = r.short()?;
                let mut statements = Vec::new();
                for _ in 0..n {
                    let k = r.u8()?;
                    match k {
                        0 => {
                            let text = r.long_string()?;
                            let nv = r.short()?;
                            let values = (0..nv).map(|_| r.value()).collect::<WResult<Vec<_>>>()?;
                            statements.push(BatchStmt::Query { text, values });
                        }
                        1 => {
                            let id = r.short_bytes()?;
                            let nv = r.short()?;
                            let values = (0..nv).map(|_| r.value()).collect::<WResult<Vec<_>>>()?;
                            statements.push(BatchStmt::Prepared { id, values });
                        }
                        x => return Err(WireError(format!("batch statement kind {x}"))),
                    }
                }
                let consistency = r.short()?;
                let flags = r.u8()?;
                let serial_consistency = if flags & 0x10 != 0 { Some(r.short()?) } else { None };
                let timestamp = if flags & 0x20 != 0 { Some(r.long()?) } else { None };
                Request::Batch { kind, statements, consistency, flags, serial_consistency, timestamp }
            }
            x => return Err(WireError(format!("unknown request opcode 0x{x:02x}"))),
        };
        if r.remaining() != 0 {
            return Err(WireError(format!("{} trailing bytes after the request body", r.remaining())));
        }
        Ok(req)
    })();
    match res {
        Ok(r) => (r, payload),
        Err(e) => (Request::Malformed { opcode, why: e.0 }, payload),
    }
}

// ------------------------------------------------------------------------------------------------
// column types and values
// ------------------------------------------------------------------------------------------------

#[derive(Clone, Debug, PartialEq, Eq)]
pub enum ColType {
    Custom(String),
    Ascii,
    Bigint,
    Blob,
    Boolean,
    Counter,
    Decimal,
    Double,
    Float,
    Int,
    Timestamp,
    Uuid,
    Text,
    Varint,
    Timeuuid,
    Inet,
    Date,
    Time,
    Smallint,
    Tinyint,
    Duration,
    List(Box<ColType>),
    Map(Box<ColType>, Box<ColType>),
    Set(Box<ColType>),
    Udt { keyspace: String, name: String, fields: Vec<(String, ColType)> },
    Tuple(Vec<ColType>),
}

impl ColType {
    pub fn encode(&self, w: &mut Writer) {
        match self {
            ColType::Custom(s) => {
                w.short(0x0000);
                w.string(s);
            }
            ColType::Ascii => drop(w.short(0x0001)),
            ColType::Bigint => drop(w.short(0x0002)),
            ColType::Blob => drop(w.short(0x0003)),
            ColType::Boolean => drop(w.short(0x0004)),
            ColType::Counter => drop(w.short(0x0005)),
            ColType::Decimal => drop(w.short(0x0006)),
            ColType::Double => drop(w.short(0x0007)),
            ColType::Float => drop(w.short(0x0008)),
            ColType::Int => drop(w.short(0x0009)),
            ColType::Timestamp => drop(w.short(0x000B)),
            ColType::Uuid => drop(w.short(0x000C)),
            ColType::Text => drop(w.short(0x000D)),
            ColType::Varint => drop(w.short(0x000E)),
            ColType::Timeuuid => drop(w.short(0x000F)),
            ColType::Inet => drop(w.short(0x0010)),
            ColType::Date => drop(w.short(0x0011)),
            ColType::Time => drop(w.short(0x0012)),
            ColType::Smallint => drop(w.short(0x0013)),
            ColType::Tinyint => drop(w.short(0x0014)),
            ColType::Duration => drop(w.short(0x0015)),
            ColType::List(t) => {
                w.short(0x0020);
                t.encode(w);
            }
            ColType::Map(k, v) => {
                w.short(0x0021);
                k.encode(w);
                v.encode(w);
            }
            ColType::Set(t) => {
                w.short(0x0022);
                t.encode(w);
            }
            ColType::Udt { keyspace, name, fields } => {
                w.short(0x0030);
                w.string(keyspace);
                w.string(name);
                w.short(fields.len() as u16);
                for (n, t) in fields {
                    w.string(n);
                    t.encode(w);
                }
            }
            ColType::Tuple(ts) => {
                w.short(0x0031);
                w.short(ts.len() as u16);
                for t in ts {
                    t.encode(w);
                }
            }
        }
    }
}

#[derive(Clone, Debug, PartialEq, Eq)]
pub struct ColSpec {
    pub keyspace: String,
    pub table: String,
    pub name: String,
    pub typ: ColType,
}
pub fn col(keyspace: &str, table: &str, name: &str, typ: ColType) -> ColSpec {
    ColSpec { keyspace: keyspace.into(), table: table.into(), name: name.into(), typ }
}

/// A cell: None = null, Some(serialized value bytes).
pub type Cell = Option<Vec<u8>>;

/// Serialized CQL values (cells) for the types the mock needs.
pub mod val {
    use super::Cell;
    use std::net::IpAddr;
    pub fn null() -> Cell {
        None
    }
    pub fn int(v: i32) -> Cell {
        Some(v.to_be_bytes().to_vec())
    }
    pub fn bigint(v: i64) -> Cell {
        Some(v.to_be_bytes().to_vec())
    }
    pub fn boolean(v: bool) -> Cell {
        Some(vec![v as u8])
    }
    pub fn text(s: &str) -> Cell {
        Some(s.as_bytes().to_vec())
    }
    pub fn blob(b: &[u8]) -> Cell {
        Some(b.to_vec())
    }
    pub fn uuid(u: uuid::Uuid) -> Cell {
        Some(u.as_bytes().to_vec())
    }
    pub fn inet(ip: IpAddr) -> Cell {
        Some(match ip {
            IpAddr::V4(a) => a.octets().to_vec(),
            IpAddr::V6(a) => a.octets().to_vec(),
        })
    }
    /// list<T> / set<T>: [int n] then n x [bytes]
    pub fn list(items: &[Cell]) -> Cell {
        let mut b = (items.len() as i32).to_be_bytes().to_vec();
        for it in items {
            match it {
                None => b.extend_from_slice(&(-1i32).to_be_bytes()),
                Some(x) => {
                    b.extend_from_slice(&(x.len() as i32).to_be_bytes());
                    b.extend_from_slice(x);
                }
            }
        }
        Some(b)
    }
    pub fn set_text<S: AsRef<str>>(items: &[S]) -> Cell {
        list(&items.iter().map(|s| text(s.as_ref())).collect::<Vec<_>>())
    }
    pub fn list_text<S: AsRef<str>>(items: &[S]) -> Cell {
        set_text(items)
    }
    /// map<K,V>: [int n] then n x ([bytes] key [bytes] value)
    pub fn map(items: &[(Cell, Cell)]) -> Cell {
        let flat: Vec<Cell> = items.iter().flat_map(|(k, v)| [k.clone(), v.clone()]).collect();
        let mut b = list(&flat).unwrap();
        b[..4].copy_from_slice(&(items.len() as i32).to_be_bytes());
        Some(b)
    }
    pub fn map_text_text<K: AsRef<str>, V: AsRef<str>>(items: &[(K, V)]) -> Cell {
        map(&items.iter().map(|(k, v)| (text(k.as_ref()), text(v.as_ref()))).collect::<Vec<_>>())
    }
    /// tuple<...> / UDT: each field as [bytes]
    pub fn tuple(items: &[Cell]) -> Cell {
        let mut b = Vec::new();
        for it in items {
            match it {
                None => b.extend_from_slice(&(-1i32).to_be_bytes()),
                Some(x) => {
                    b.extend_from_slice(&(x.len() as i32).to_be_bytes());
                    b.extend_from_slice(x);
                }
            }
        }
        Some(b)
    }
}

/// Value of the `tablets-routing-v1` custom payload entry:
/// tuple<bigint first_token (exclusive), bigint last_token (inclusive), list<tuple<uuid host, int shard>>>.
pub fn tablet_payload(first_token_exclusive: i64, last_token: i64, replicas: &[(uuid::Uuid, i32)]) -> Vec<u8> {
    let reps: Vec<Cell> = replicas.iter().map(|(u, s)| val::tuple(&[val::uuid(*u), val::int(*s)])).collect();
    val::tuple(&[val::bigint(first_token_exclusive), val::bigint(last_token), val::list(&reps)]).unwrap()
}
pub const TABLETS_PAYLOAD_KEY: &str = "tablets-routing-v1";

// ------------------------------------------------------------------------------------------------
// responses
// ------------------------------------------------------------------------------------------------

/// ERROR body: code, message and the code-specific fields.
#[derive(Clone, Debug, PartialEq, Eq)]
pub struct ErrorBody {
    pub code: i32,
    pub message: String,
    pub extra: ErrorExtra,
}
#[derive(Clone, Debug, PartialEq, Eq)]
pub enum ErrorExtra {
    None,
    Unavailable { consistency: u16, required: i32, alive: i32 },
    WriteTimeout { consistency: u16, received: i32, block_for: i32, write_type: String },
    ReadTimeout { consistency: u16, received: i32, block_for: i32, data_present: bool },
    ReadFailure { consistency: u16, received: i32, block_for: i32, num_failures: i32, data_present: bool },
    FunctionFailure { keyspace: String, function: String, arg_types: Vec<String> },
    WriteFailure { consistency: u16, received: i32, block_for: i32, num_failures: i32, write_type: String },
    AlreadyExists { keyspace: String, table: String },
    Unprepared { id: Vec<u8> },
    /// ScyllaDB rate-limit extension (code negotiated through SCYLLA_RATE_LIMIT_ERROR)
    RateLimit { op_type: u8, rejected_by_coordinator: bool },
    Raw(Vec<u8>),
}
pub mod errcode {
    pub const SERVER_ERROR: i32 = 0x0000;
    pub const PROTOCOL_ERROR: i32 = 0x000A;
    pub const AUTH_ERROR: i32 = 0x0100;
    pub const UNAVAILABLE: i32 = 0x1000;
    pub const OVERLOADED: i32 = 0x1001;
    pub const IS_BOOTSTRAPPING: i32 = 0x1002;
    pub const TRUNCATE_ERROR: i32 = 0x1003;
    pub const WRITE_TIMEOUT: i32 = 0x1100;
    pub const READ_TIMEOUT: i32 = 0x1200;
    pub const READ_FAILURE: i32 = 0x1300;
    pub const FUNCTION_FAILURE: i32 = 0x1400;
    pub const WRITE_FAILURE: i32 = 0x1500;
    pub const SYNTAX_ERROR: i32 = 0x2000;
    pub const UNAUTHORIZED: i32 = 0x2100;
    pub const INVALID: i32 = 0x2200;
    pub const CONFIG_ERROR: i32 = 0x2300;
    pub const ALREADY_EXISTS: i32 = 0x2400;
    pub const UNPREPARED: i32 = 0x2500;
}
impl ErrorBody {
    pub fn simple(code: i32, message: &str) -> ErrorBody {
        ErrorBody { code, message: message.into(), extra: ErrorExtra::None }
    }
    pub fn server_error(message: &str) -> ErrorBody {
        Self::simple(errcode::SERVER_ERROR, message)
    }
    pub fn invalid(message: &str) -> ErrorBody {
        Self::simple(errcode::INVALID, message)
    }
    pub fn overloaded(message: &str) -> ErrorBody {
        Self::simple(errcode::OVERLOADED, message)
    }
    pub fn unprepared(id: &[u8]) -> ErrorBody {
        ErrorBody { code: errcode::UNPREPARED, message: "unprepared statement".into(), extra: ErrorExtra::Unprepared { id: id.to_vec() } }
    }
    pub fn unavailable(consistency: u16, required: i32, alive: i32) -> ErrorBody {
        ErrorBody { code: errcode::UNAVAILABLE, message: "unavailable".into(), extra: ErrorExtra::Unavailable { consistency, required, alive } }
    }
    pub fn write_timeout(consistency: u16, received: i32, block_for: i32, write_type: &str) -> ErrorBody {
        ErrorBody {
            code: errcode::WRITE_TIMEOUT,
            message: "write timeout".into(),
            extra: ErrorExtra::WriteTimeout { consistency, received, block_for, write_type: write_type.into() },
        }
    }
    pub fn read_timeout(consistency: u16, received: i32, block_for: i32, data_present: bool) -> ErrorBody {
        ErrorBody { code: errcode::READ_TIMEOUT, message: "read timeout".into(), extra: ErrorExtra::ReadTimeout { consistency, received, block_for, data_present } }
    }
    fn encode(&self, w: &mut Writer) {
        w.int(self.code);
        w.string(&self.message);
        match &self.extra {
            ErrorExtra::None => {}
            ErrorExtra::Unavailable { consistency, required, alive } => {
                w.short(*consistency).int(*required).int(*alive);
            }
            ErrorExtra::WriteTimeout { consistency, received, block_for, write_type } => {
                w.short(*consistency).int(*received).int(*block_for).string(write_type);
            }
            ErrorExtra::ReadTimeout { consistency, received, block_for, data_present } => {
                w.short(*consistency).int(*received).int(*block_for).u8(*data_present as u8);
            }
            ErrorExtra::ReadFailure { consistency, received, block_for, num_failures, data_present } => {
                w.short(*consistency).int(*received).int(*block_for).int(*num_failures).u8(*data_present as u8);
            }
            ErrorExtra::FunctionFailure { keyspace, function, arg_types } => {
                w.string(keyspace).string(function).string_list(arg_types);
            }
            ErrorExtra::WriteFailure { consistency, received, block_for, num_failures, write_type } => {
                w.short(*consistency).int(*received).int(*block_for).int(*num_failures).string(write_type);
            }
            ErrorExtra::AlreadyExists { keyspace, table } => {
                w.string(keyspace).string(table);
            }
            ErrorExtra::Unprepared { id } => {
                w.short_bytes(id);
            }
            ErrorExtra::RateLimit { op_type, rejected_by_coordinator } => {
                w.u8(*op_type).u8(*rejected_by_coordinator as u8);
            }
            ErrorExtra::Raw(b) => {
                w.raw(b);
            }
        }
    }
}

/// `<metadata>` of a Rows result (also the result part of a Prepared result).
#[derive(Clone, Debug, PartialEq, Eq, Default)]
pub struct RowsMetadata {
    pub cols: Vec<ColSpec>,
    pub paging_state: Option<Vec<u8>>,
    /// send the NO_METADATA flag (column count still sent, no specs)
    pub no_metadata: bool,
    /// METADATA_CHANGED flag + new id (only meaningful when SCYLLA_USE_METADATA_ID was negotiated)
    pub new_metadata_id: Option<Vec<u8>>,
}
impl RowsMetadata {
    fn encode(&self, w: &mut Writer) {
        let global = !self.cols.is_empty() && self.cols.iter().all(|c| c.keyspace == self.cols[0].keyspace && c.table == self.cols[0].table);
        let mut flags = 0i32;
        if global && !self.no_metadata {
            flags |= 0x0001;
        }
        if self.paging_state.is_some() {
            flags |= 0x0002;
        }
        if self.no_metadata {
            flags |= 0x0004;
        }
        if self.new_metadata_id.is_some() {
            flags |= 0x0008;
        }
        w.int(flags);
        w.int(self.cols.len() as i32);
        if let Some(ps) = &self.paging_state {
            w.bytes(Some(ps));
        }
        if let Some(id) = &self.new_metadata_id {
            w.short_bytes(id);
        }
        if !self.no_metadata {
            encode_col_specs(w, &self.cols, global);
        }
    }
}
fn encode_col_specs(w: &mut Writer, cols: &[ColSpec], global: bool) {
    if global {
        w.string(&cols[0].keyspace).string(&cols[0].table);
    }
    for c in cols {
        if !global {
            w.string(&c.keyspace).string(&c.table);
        }
        w.string(&c.name);
        c.typ.encode(w);
    }
}

#[derive(Clone, Debug, PartialEq, Eq, Default)]
pub struct RowsResult {
    pub metadata: RowsMetadata,
    pub rows: Vec<Vec<Cell>>,
    /// when true (default from `Response::rows`) the mock sets NO_METADATA if the request asked to skip metadata
    pub honor_skip_metadata: bool,
}

#[derive(Clone, Debug, PartialEq, Eq, Default)]
pub struct PreparedResult {
    pub id: Vec<u8>,
    /// sent iff Some; must be Some exactly when SCYLLA_USE_METADATA_ID was negotiated on the connection
    pub result_metadata_id: Option<Vec<u8>>,
    pub bind_cols: Vec<ColSpec>,
    pub pk_indexes: Vec<u16>,
    pub result: RowsMetadata,
    /// extra bits or-ed into the prepared-metadata flags (e.g. the negotiated LWT mark)
    pub extra_flags: i32,
}

#[derive(Clone, Debug, PartialEq, Eq)]
pub enum SchemaChangeTarget {
    Keyspace { keyspace: String },
    Table { keyspace: String, name: String },
    Type { keyspace: String, name: String },
    Function { keyspace: String, name: String, args: Vec<String> },
    Aggregate { keyspace: String, name: String, args: Vec<String> },
}
#[derive(Clone, Debug, PartialEq, Eq)]
pub struct SchemaChange {
    /// CREATED | UPDATED | DROPPED
    pub change: String,
    pub target: SchemaChangeTarget,
}
impl SchemaChange {
    fn encode(&self, w: &mut Writer) {
        w.string(&self.change);
        match &self.target {
            SchemaChangeTarget::Keyspace { keyspace } => {
                w.string("KEYSPACE").string(keyspace);
            }
            SchemaChangeTarget::Table { keyspace, name } => {
                w.string("TABLE").string(keyspace).string(name);
            }
            SchemaChangeTarget::Type { keyspace, name } => {
                w.string("TYPE").string(keyspace).string(name);
            }
            SchemaChangeTarget::Function { keyspace, name, args } => {
                w.string("FUNCTION").string(keyspace).string(name).string_list(args);
            }
            SchemaChangeTarget::Aggregate { keyspace, name, args } => {
                w.string("AGGREGATE").string(keyspace).string(name).string_list(args);
            }
        }
    }
}

#[derive(Clone, Debug, PartialEq, Eq)]
pub enum Event {
    /// change: NEW_NODE | REMOVED_NODE (| MOVED_NODE)
    TopologyChange { change: String, addr: IpAddr, port: i32 },
    /// change: UP | DOWN
    StatusChange { change: String, addr: IpAddr, port: i32 },
    SchemaChange(SchemaChange),
    Raw { kind: String, body: Vec<u8> },
}
impl Event {
    pub fn kind(&self) -> &str {
        match self {
            Event::TopologyChange { .. } => "TOPOLOGY_CHANGE",
            Event::StatusChange { .. } => "STATUS_CHANGE",
            Event::SchemaChange(_) => "SCHEMA_CHANGE",
            Event::Raw { kind, .. } => kind,
        }
    }
    pub fn new_node(addr: IpAddr, port: u16) -> Event {
        Event::TopologyChange { change: "NEW_NODE".into(), addr, port: port as i32 }
    }
    pub fn removed_node(addr: IpAddr, port: u16) -> Event {
        Event::TopologyChange { change: "REMOVED_NODE".into(), addr, port: port as i32 }
    }
    pub fn up(addr: IpAddr, port: u16) -> Event {
        Event::StatusChange { change: "UP".into(), addr, port: port as i32 }
    }
    pub fn down(addr: IpAddr, port: u16) -> Event {
        Event::StatusChange { change: "DOWN".into(), addr, port: port as i32 }
    }
}

#[derive(Clone, Debug, PartialEq, Eq)]
pub enum Response {
    Ready,
    Supported(Vec<(String, Vec<String>)>),
    Authenticate(String),
    AuthChallenge(Option<Vec<u8>>),
    AuthSuccess(Option<Vec<u8>>),
    Error(ErrorBody),
    Void,
    Rows(RowsResult),
    SetKeyspace(String),
    Prepared(PreparedResult),
    SchemaChange(SchemaChange),
    Event(Event),
    /// anything else: opcode + raw body (for malformed-response tests)
    Raw { opcode: u8, body: Vec<u8> },
}

impl Response {
    pub fn rows(cols: Vec<ColSpec>, rows: Vec<Vec<Cell>>) -> Response {
        Response::Rows(RowsResult { metadata: RowsMetadata { cols, ..Default::default() }, rows, honor_skip_metadata: true })
    }
    pub fn rows_paged(cols: Vec<ColSpec>, rows: Vec<Vec<Cell>>, paging_state: Option<Vec<u8>>) -> Response {
        Response::Rows(RowsResult { metadata: RowsMetadata { cols, paging_state, ..Default::default() }, rows, honor_skip_metadata: true })
    }
    pub fn error(e: ErrorBody) -> Response {
        Response::Error(e)
    }
    pub fn server_error(msg: &str) -> Response {
        Response::Error(ErrorBody::server_error(msg))
    }
    pub fn opcode(&self) -> u8 {
        match self {
            Response::Ready => op::READY,
            Response::Supported(_) => op::SUPPORTED,
            Response::Authenticate(_) => op::AUTHENTICATE,
            Response::AuthChallenge(_) => op::AUTH_CHALLENGE,
            Response::AuthSuccess(_) => op::AUTH_SUCCESS,
            Response::Error(_) => op::ERROR,
            Response::Void | Response::Rows(_) | Response::SetKeyspace(_) | Response::Prepared(_) | Response::SchemaChange(_) => op::RESULT,
            Response::Event(_) => op::EVENT,
            Response::Raw { opcode, .. } => *opcode,
        }
    }
    /// Short description for logs.
    pub fn summary(&self) -> String {
        match self {
            Response::Ready => "READY".into(),
            Response::Supported(_) => "SUPPORTED".into(),
            Response::Authenticate(_) => "AUTHENTICATE".into(),
            Response::AuthChallenge(_) => "AUTH_CHALLENGE".into(),
            Response::AuthSuccess(_) => "AUTH_SUCCESS".into(),
            Response::Error(e) => format!("ERROR 0x{:04x} {}", e.code, e.message),
            Response::Void => "RESULT Void".into(),
            Response::Rows(r) => format!("RESULT Rows n={} more={}", r.rows.len(), r.metadata.paging_state.is_some()),
            Response::SetKeyspace(k) => format!("RESULT SetKeyspace {k}"),
            Response::Prepared(p) => format!("RESULT Prepared id={}", vcore::hex(&p.id)),
            Response::SchemaChange(_) => "RESULT SchemaChange".into(),
            Response::Event(e) => format!("EVENT {}", e.kind()),
            Response::Raw { opcode, .. } => format!("RAW opcode 0x{opcode:02x}"),
        }
    }
    pub fn encode_body(&self, w: &mut Writer) {
        match self {
            Response::Ready => {}
            Response::Supported(m) => {
                w.short(m.len() as u16);
                for (k, v) in m {
                    w.string(k);
                    w.string_list(v);
                }
            }
            Response::Authenticate(s) => {
                w.string(s);
            }
            Response::AuthChallenge(b) | Response::AuthSuccess(b) => {
                w.bytes(b.as_deref());
            }
            Response::Error(e) => e.encode(w),
            Response::Void => {
                w.int(1);
            }
            Response::Rows(r) => {
                w.int(2);
                r.metadata.encode(w);
                w.int(r.rows.len() as i32);
                for row in &r.rows {
                    for c in row {
                        w.bytes(c.as_deref());
                    }
                }
            }
            Response::SetKeyspace(k) => {
                w.int(3);
                w.string(k);
            }
            Response::Prepared(p) => {
                w.int(4);
                w.short_bytes(&p.id);
                if let Some(mid) = &p.result_metadata_id {
                    w.short_bytes(mid);
                }
                let global = !p.bind_cols.is_empty() && p.bind_cols.iter().all(|c| c.keyspace == p.bind_cols[0].keyspace && c.table == p.bind_cols[0].table);
                w.int((if global { 1 } else { 0 }) | p.extra_flags);
                w.int(p.bind_cols.len() as i32);
                w.int(p.pk_indexes.len() as i32);
                for i in &p.pk_indexes {
                    w.short(*i);
                }
                encode_col_specs(w, &p.bind_cols, global);
                p.result.encode(w);
            }
            Response::SchemaChange(s) => {
                w.int(5);
                s.encode(w);
            }
            Response::Event(e) => {
                w.string(e.kind());
                match e {
                    Event::TopologyChange { change, addr, port } | Event::StatusChange { change, addr, port } => {
                        w.string(change);
                        w.inet(*addr, *port);
                    }
                    Event::SchemaChange(s) => s.encode(w),
                    Event::Raw { body, .. } => {
                        w.raw(body);
                    }
                }
            }
            Response::Raw { body, .. } => {
                w.raw(body);
            }
        }
    }
}

/// A response plus the optional frame-level extras (tracing id, warnings, custom payload).
#[derive(Clone, Debug, PartialEq, Eq)]
pub struct Envelope {
    pub response: Response,
    pub tracing_id: Option<[u8; 16]>,
    pub warnings: Vec<String>,
    pub custom_payload: Vec<(String, Vec<u8>)>,
}
impl From<Response> for Envelope {
    fn from(response: Response) -> Self {
        Envelope { response, tracing_id: None, warnings: Vec::new(), custom_payload: Vec::new() }
    }
}
impl Envelope {
    pub fn with_payload(mut self, key: &str, value: Vec<u8>) -> Self {
        self.custom_payload.push((key.to_string(), value));
        self
    }
    pub fn with_warning(mut self, w: &str) -> Self {
        self.warnings.push(w.to_string());
        self
    }
    pub fn with_tracing_id(mut self, id: [u8; 16]) -> Self {
        self.tracing_id = Some(id);
        self
    }
    /// Whole frame (header + body) for the given stream.
    pub fn encode_frame(&self, stream: i16) -> Vec<u8> {
        let mut w = Writer::new();
        let mut flags = 0u8;
        // order in the body: tracing id, warnings, custom payload, message
        if let Some(t) = &self.tracing_id {
            flags |= flag::TRACING;
            w.raw(t);
        }
        if !self.warnings.is_empty() {
            flags |= flag::WARNING;
            w.string_list(&self.warnings);
        }
        if !self.custom_payload.is_empty() {
            flags |= flag::CUSTOM_PAYLOAD;
            w.short(self.custom_payload.len() as u16);
            for (k, v) in &self.custom_payload {
                w.string(k);
                w.bytes(Some(v));
            }
        }
        self.response.encode_body(&mut w);
        let h = Header { version: 0x84, flags, stream, opcode: self.response.opcode(), length: w.buf.len() as u32 };
        let mut out = h.encode().to_vec();
        out.extend_from_slice(&w.buf);
        out
    }
}

#[cfg(test)]
mod tests {
    use super::*;
    #[test]
    fn query_roundtrip_by_hand() {
        // QUERY "USE ks" consistency ONE, flags: page_size
        let mut w = Writer::new();
        w.long_string("USE ks").short(1).u8(0x04).int(5000);
        let (r, _) = parse_request(op::QUERY, 0, &w.buf, ParseCtx::default());
        match r {
            Request::Query { text, params } => {
                assert_eq!(text, "USE ks");
                assert_eq!(params.page_size, Some(5000));
                assert_eq!(params.consistency, 1);
            }
            x => panic!("{x:?}"),
        }
    }
    #[test]
    fn header() {
        let h = Header { version: 0x84, flags: 0, stream: -1, opcode: op::EVENT, length: 7 };
        assert_eq!(Header::parse(&h.encode()), h);
    }
}
