//! E-MOCK: in-process scripted CQL v4 nodes on loopback with explorer-controlled gates
//! (DESIGN.md 1.2, Appendix A). See README.md for the API tour and a worked example.
//!
//! * `MockCluster::builder().node(NodeSpec{..}).keyspace(..).build().await` binds one listener per node
//!   (same port number on distinct loopback addresses of this process's private 127.<16+slot>.x.y block,
//!   plus a shard-aware port for Scylla nodes) and serves a real `scylla` Session.
//! * every parsed frame / sent response / open / close / pushed event is appended to one ordered LOG;
//!   `wait_*` helpers block on *conditions* over that log (never on sleeps).
//! * per-test `Handler`s and `Script`s answer user statements; unknown statements get a server error and
//!   are listed by `unexpected()`.
//! * GATES: `hold(pred)` parks every matching server-side action (accepting a connection, any response)
//!   until the test calls `release(id)`; closes/resets and event pushes are initiated by the test itself.
//! * per connection the mock tracks the keyspace it has *acknowledged* (SetKeyspace response written).

pub mod systables;
pub mod wire;

use bytes::BytesMut;
use std::collections::{BTreeMap, HashMap};
use std::net::{IpAddr, Ipv4Addr, SocketAddr};
use std::sync::atomic::{AtomicU32, Ordering};
use std::sync::{Arc, Mutex};
use std::time::Duration;
use tokio::io::{AsyncReadExt, AsyncWriteExt};
use tokio::net::{TcpListener, TcpStream};
use tokio::sync::{Notify, mpsc, oneshot};
use tokio::time::Instant;
use uuid::Uuid;
use wire::{ColSpec, Envelope, ErrorBody, Event, Opcode, ParseCtx, PreparedResult, Request, Response, RowsMetadata};

pub const DEFAULT_PORT: u16 = 9042;
pub const SHARD_AWARE_PORT_OFFSET: u16 = 10000;
/// Generous liveness deadline for `wait_*` helpers (correct code needs milliseconds).
pub const DEADLINE: Duration = Duration::from_secs(20);

// ------------------------------------------------------------------------------------------------
// loopback address allocation
// ------------------------------------------------------------------------------------------------

static NEXT_HOST: AtomicU32 = AtomicU32::new(0);

/// Second octet offset of this process's loopback block: `VERIF_MOCK_SLOT` if set, else pid-derived.
pub fn loopback_slot() -> u8 {
    let raw = std::env::var("VERIF_MOCK_SLOT").ok().and_then(|s| s.parse::<u32>().ok()).unwrap_or_else(std::process::id);
    (raw % 224) as u8
}

/// Next unused address of this process's block 127.<16+slot>.x.y (y in 1..=254).
pub fn alloc_ip() -> Ipv4Addr {
    let n = NEXT_HOST.fetch_add(1, Ordering::Relaxed) % (256 * 254);
    Ipv4Addr::new(127, 16 + loopback_slot(), (n / 254) as u8, (n % 254 + 1) as u8)
}

// ------------------------------------------------------------------------------------------------
// specifications
// ------------------------------------------------------------------------------------------------

#[derive(Clone, Copy, Debug, PartialEq, Eq)]
pub enum PlainPortShard {
    /// connections on the plain port get shards 0,1,2,.. in order of arrival (per node)
    RoundRobin,
    Fixed(u16),
}

#[derive(Clone, Debug)]
pub struct NodeSpec {
    /// None = take the next address of this process's loopback block
    pub addr: Option<Ipv4Addr>,
    pub dc: String,
    pub rack: String,
    pub tokens: Vec<i64>,
    /// Some((nr_shards, msb_ignore)) = ScyllaDB node; None = Cassandra-like node
    pub shards: Option<(u16, u8)>,
    pub host_id: Option<Uuid>,
    /// listen on and advertise the shard-aware port (Scylla nodes only)
    pub shard_aware_port: bool,
    pub plain_port_shard: PlainPortShard,
    /// NAT emulation on the shard-aware port: Some(map) = a connection whose source port asks for shard `p % nr`
    /// is bound to `map[p % nr]` instead (None = ScyllaDB's rule, shard = source port % nr)
    pub shard_port_map: Option<Vec<u16>>,
    /// advertise TABLETS_ROUTING_V1
    pub tablets_v1: bool,
    /// advertise SCYLLA_USE_METADATA_ID
    pub metadata_id: bool,
    /// advertise SCYLLA_LWT_ADD_METADATA_MARK with this mask
    pub lwt_mark: Option<u32>,
    /// advertise SCYLLA_RATE_LIMIT_ERROR with this error code
    pub rate_limit_error: Option<i32>,
    /// answer STARTUP with AUTHENTICATE(<class>) and any AUTH_RESPONSE with AUTH_SUCCESS
    pub authenticator: Option<String>,
    /// listed in system.local / system.peers of the other nodes
    pub in_ring: bool,
    /// serve `host_id = null` for this node in system tables
    pub null_host_id: bool,
    /// start listening at build time
    pub listening: bool,
    pub extra_supported: Vec<(String, Vec<String>)>,
}
impl NodeSpec {
    pub fn new(dc: &str, rack: &str, tokens: Vec<i64>) -> NodeSpec {
        NodeSpec {
            addr: None,
            dc: dc.into(),
            rack: rack.into(),
            tokens,
            shards: None,
            host_id: None,
            shard_aware_port: true,
            plain_port_shard: PlainPortShard::RoundRobin,
            shard_port_map: None,
            tablets_v1: false,
            metadata_id: false,
            lwt_mark: None,
            rate_limit_error: None,
            authenticator: None,
            in_ring: true,
            null_host_id: false,
            listening: true,
            extra_supported: Vec::new(),
        }
    }
    pub fn scylla(mut self, nr_shards: u16, msb_ignore: u8) -> NodeSpec {
        self.shards = Some((nr_shards, msb_ignore));
        self
    }
    pub fn addr(mut self, a: Ipv4Addr) -> NodeSpec {
        self.addr = Some(a);
        self
    }
    pub fn host_id(mut self, u: Uuid) -> NodeSpec {
        self.host_id = Some(u);
        self
    }
    pub fn tablets(mut self) -> NodeSpec {
        self.tablets_v1 = true;
        self
    }
}

#[derive(Clone, Debug)]
pub struct ColumnSpec {
    pub name: String,
    /// partition_key | clustering | regular | static
    pub kind: String,
    pub position: i32,
    /// CQL type name as in system_schema.columns.type (`int`, `text`, `list<int>`, ..)
    pub typ: String,
}
#[derive(Clone, Debug)]
pub struct TableSpec {
    pub name: String,
    pub columns: Vec<ColumnSpec>,
    /// system_schema.scylla_tables.partitioner (None = null = default Murmur3)
    pub partitioner: Option<String>,
}
impl TableSpec {
    pub fn new(name: &str) -> TableSpec {
        TableSpec { name: name.into(), columns: Vec::new(), partitioner: None }
    }
    pub fn pk(mut self, name: &str, typ: &str) -> TableSpec {
        let position = self.columns.iter().filter(|c| c.kind == "partition_key").count() as i32;
        self.columns.push(ColumnSpec { name: name.into(), kind: "partition_key".into(), position, typ: typ.into() });
        self
    }
    pub fn ck(mut self, name: &str, typ: &str) -> TableSpec {
        let position = self.columns.iter().filter(|c| c.kind == "clustering").count() as i32;
        self.columns.push(ColumnSpec { name: name.into(), kind: "clustering".into(), position, typ: typ.into() });
        self
    }
    pub fn col(mut self, name: &str, typ: &str) -> TableSpec {
        self.columns.push(ColumnSpec { name: name.into(), kind: "regular".into(), position: -1, typ: typ.into() });
        self
    }
}
#[derive(Clone, Debug)]
pub struct KeyspaceSpec {
    pub name: String,
    pub replication: Vec<(String, String)>,
    pub durable_writes: bool,
    pub tables: Vec<TableSpec>,
    /// system_schema.scylla_keyspaces.initial_tablets (Some = tablet keyspace)
    pub initial_tablets: Option<i32>,
}
impl KeyspaceSpec {
    pub fn simple(name: &str, rf: usize) -> KeyspaceSpec {
        KeyspaceSpec {
            name: name.into(),
            replication: vec![("class".into(), "org.apache.cassandra.locator.SimpleStrategy".into()), ("replication_factor".into(), rf.to_string())],
            durable_writes: true,
            tables: Vec::new(),
            initial_tablets: None,
        }
    }
    pub fn nts(name: &str, dcs: &[(&str, usize)]) -> KeyspaceSpec {
        let mut replication = vec![("class".to_string(), "org.apache.cassandra.locator.NetworkTopologyStrategy".to_string())];
        for (dc, rf) in dcs {
            replication.push((dc.to_string(), rf.to_string()));
        }
        KeyspaceSpec { name: name.into(), replication, durable_writes: true, tables: Vec::new(), initial_tablets: None }
    }
    pub fn table(mut self, t: TableSpec) -> KeyspaceSpec {
        self.tables.push(t);
        self
    }
    pub fn tablets(mut self, initial: i32) -> KeyspaceSpec {
        self.initial_tablets = Some(initial);
        self
    }
}

/// What system tables show about a node.
#[derive(Clone, Debug)]
pub struct NodeView {
    pub index: usize,
    pub ip: Ipv4Addr,
    pub host_id: Uuid,
    pub dc: String,
    pub rack: String,
    pub tokens: Vec<i64>,
    pub in_ring: bool,
    pub null_host_id: bool,
}

// ------------------------------------------------------------------------------------------------
// log
// ------------------------------------------------------------------------------------------------

#[derive(Clone, Copy, Debug, PartialEq, Eq)]
pub enum CloseKind {
    /// orderly close (FIN)
    Fin,
    /// SO_LINGER 0 + close (RST)
    Rst,
}
#[derive(Clone, Copy, Debug, PartialEq, Eq)]
pub enum ClosedBy {
    Client,
    ReadError,
    Server(CloseKind),
}

#[derive(Clone, Debug)]
pub struct FrameInfo {
    pub stream: i16,
    pub opcode: Opcode,
    pub flags: u8,
    pub request: Request,
    /// raw body bytes as received (for an independent parser)
    pub body: Vec<u8>,
    /// keyspace this connection had ACKNOWLEDGED (SetKeyspace response written) when the frame arrived
    pub keyspace: Option<String>,
    /// QUERY/PREPARE text, or the text the node knows for an EXECUTE's prepared id
    pub statement: Option<String>,
    /// the connection had REGISTERed for events when the frame arrived (control connection)
    pub control: bool,
}
#[derive(Clone, Debug)]
pub enum LogKind {
    Open { peer: SocketAddr, shard_port: bool },
    Frame(FrameInfo),
    Sent { stream: i16, request_seq: Option<u64>, response: Arc<Envelope> },
    Closed { by: ClosedBy },
    EventPushed { event: Event },
}
#[derive(Clone, Debug)]
pub struct LogEntry {
    /// logical sequence number: position in the cluster-wide log
    pub seq: u64,
    pub node: usize,
    pub conn: u64,
    /// server-side shard of the connection (Scylla nodes)
    pub shard: Option<u16>,
    pub kind: LogKind,
}
impl LogEntry {
    pub fn frame(&self) -> Option<&FrameInfo> {
        match &self.kind {
            LogKind::Frame(f) => Some(f),
            _ => None,
        }
    }
    pub fn opcode(&self) -> Option<Opcode> {
        self.frame().map(|f| f.opcode)
    }
    pub fn statement(&self) -> Option<&str> {
        self.frame().and_then(|f| f.statement.as_deref())
    }
    /// frame whose statement text starts with `prefix` (QUERY, PREPARE or EXECUTE of a known id)
    pub fn is_stmt(&self, prefix: &str) -> bool {
        self.statement().map(|s| s.starts_with(prefix)).unwrap_or(false)
    }
    /// a frame that is not part of handshake / keepalive / metadata reading / USE
    pub fn is_user_frame(&self) -> bool {
        match self.frame() {
            None => false,
            Some(f) => match f.opcode {
                Opcode::Query | Opcode::Prepare | Opcode::Execute => match &f.statement {
                    Some(s) => systables::parse_select(s).is_none() && !is_use(s),
                    None => true,
                },
                Opcode::Batch => true,
                _ => false,
            },
        }
    }
    pub fn describe(&self) -> String {
        let head = format!("#{:<4} n{} c{:<3} s{:<2}", self.seq, self.node, self.conn, self.shard.map(|s| s.to_string()).unwrap_or_else(|| "-".into()));
        match &self.kind {
            LogKind::Open { peer, shard_port } => format!("{head} OPEN from {peer}{}", if *shard_port { " (shard-aware port)" } else { "" }),
            LogKind::Frame(f) => format!(
                "{head} <- [{}] {}{}{}",
                f.stream,
                f.opcode.name(),
                f.statement.as_ref().map(|s| format!(" {s:?}")).unwrap_or_default(),
                f.keyspace.as_ref().map(|k| format!(" (ks={k})")).unwrap_or_default()
            ),
            LogKind::Sent { stream, response, .. } => format!("{head} -> [{}] {}", stream, response.response.summary()),
            LogKind::Closed { by } => format!("{head} CLOSED by {by:?}"),
            LogKind::EventPushed { event } => format!("{head} => EVENT {event:?}"),
        }
    }
}

pub fn is_use(stmt: &str) -> bool {
    let t = stmt.trim_start();
    t.len() >= 4 && t[..4].eq_ignore_ascii_case("USE ")
}

// ------------------------------------------------------------------------------------------------
// handlers, scripts, replies
// ------------------------------------------------------------------------------------------------

/// What the node does about one request.
#[derive(Clone, Debug)]
pub enum Reply {
    Frame(Envelope),
    /// never answer
    Silent,
    /// close the connection instead of answering
    Close(CloseKind),
    FrameThenClose(Envelope, CloseKind),
    /// write only the first `bytes` bytes of the frame, then close
    CutFrame { env: Envelope, bytes: usize, then: CloseKind },
}
impl Reply {
    pub fn void() -> Reply {
        Reply::Frame(Response::Void.into())
    }
    pub fn rows(cols: Vec<ColSpec>, rows: Vec<Vec<wire::Cell>>) -> Reply {
        Reply::Frame(Response::rows(cols, rows).into())
    }
    pub fn error(e: ErrorBody) -> Reply {
        Reply::Frame(Response::Error(e).into())
    }
    pub fn response(r: Response) -> Reply {
        Reply::Frame(r.into())
    }
    pub fn envelope(&self) -> Option<&Envelope> {
        match self {
            Reply::Frame(e) | Reply::FrameThenClose(e, _) | Reply::CutFrame { env: e, .. } => Some(e),
            _ => None,
        }
    }
}
impl From<Response> for Reply {
    fn from(r: Response) -> Self {
        Reply::Frame(r.into())
    }
}

/// Context handed to handlers. The cluster's state lock is NOT held while a handler runs, so a handler may
/// call any `MockCluster` method.
pub struct ReqCtx<'a> {
    pub cluster: &'a MockCluster,
    pub node: usize,
    pub conn: u64,
    pub shard: Option<u16>,
    pub stream: i16,
    pub request: &'a Request,
    pub entry: &'a Arc<LogEntry>,
    /// acknowledged keyspace of the connection
    pub keyspace: Option<String>,
    /// QUERY/PREPARE text or the text registered for the EXECUTE's id on this node
    pub statement: Option<String>,
    /// SCYLLA_USE_METADATA_ID negotiated on this connection
    pub metadata_id: bool,
    /// LWT mark negotiated on this connection
    pub lwt_mark: Option<u32>,
}
impl ReqCtx<'_> {
    pub fn opcode(&self) -> Opcode {
        self.entry.opcode().unwrap()
    }
    pub fn params(&self) -> Option<&wire::QueryParams> {
        self.request.params()
    }
    pub fn is_stmt(&self, prefix: &str) -> bool {
        self.statement.as_deref().map(|s| s.starts_with(prefix)).unwrap_or(false)
    }
}

/// Returns None to pass the request on (next handler, then scripts, then built-ins, then the fallback error).
pub type Handler = Arc<dyn Fn(&ReqCtx) -> Option<Reply> + Send + Sync>;

/// A scripted user statement: PREPARE of `text` answers with the metadata given here, QUERY/EXECUTE call `reply`.
#[derive(Clone)]
pub struct Script {
    pub text: String,
    /// match statements that START WITH `text` instead of equal to it
    pub prefix: bool,
    pub bind_cols: Vec<ColSpec>,
    pub pk_indexes: Vec<u16>,
    pub result_cols: Vec<ColSpec>,
    /// set the negotiated LWT mark in the PREPARED flags
    pub lwt: bool,
    /// None = all nodes
    pub nodes: Option<Vec<usize>>,
    pub reply: Arc<dyn Fn(&ReqCtx) -> Reply + Send + Sync>,
}
impl Script {
    /// Statement answered with Void (an INSERT/UPDATE).
    pub fn new(text: &str) -> Script {
        Script {
            text: text.into(),
            prefix: false,
            bind_cols: Vec::new(),
            pk_indexes: Vec::new(),
            result_cols: Vec::new(),
            lwt: false,
            nodes: None,
            reply: Arc::new(|_| Reply::void()),
        }
    }
    pub fn prefix(mut self) -> Script {
        self.prefix = true;
        self
    }
    pub fn bind(mut self, cols: Vec<ColSpec>, pk_indexes: Vec<u16>) -> Script {
        self.bind_cols = cols;
        self.pk_indexes = pk_indexes;
        self
    }
    pub fn result(mut self, cols: Vec<ColSpec>) -> Script {
        self.result_cols = cols;
        self
    }
    /// Answer every QUERY/EXECUTE with these rows (single page).
    pub fn rows(mut self, cols: Vec<ColSpec>, rows: Vec<Vec<wire::Cell>>) -> Script {
        self.result_cols = cols.clone();
        self.reply = Arc::new(move |_| Reply::rows(cols.clone(), rows.clone()));
        self
    }
    pub fn reply(mut self, f: impl Fn(&ReqCtx) -> Reply + Send + Sync + 'static) -> Script {
        self.reply = Arc::new(f);
        self
    }
    pub fn on_nodes(mut self, nodes: Vec<usize>) -> Script {
        self.nodes = Some(nodes);
        self
    }
    fn matches(&self, node: usize, stmt: &str) -> bool {
        self.nodes.as_ref().map(|n| n.contains(&node)).unwrap_or(true) && if self.prefix { stmt.starts_with(&self.text) } else { stmt == self.text }
    }
}

/// Deterministic prepared-statement id the built-in PREPARE assigns to a statement text (16 bytes).
pub fn prepared_id(text: &str) -> Vec<u8> {
    let a = vcore::fnv64(text.as_bytes());
    let b = vcore::fnv64(format!("{text}#").as_bytes());
    [a.to_be_bytes(), b.to_be_bytes()].concat()
}
fn metadata_id_of(cols: &[ColSpec]) -> Vec<u8> {
    vcore::fnv64(format!("{cols:?}").as_bytes()).to_be_bytes().to_vec()
}

/// Serve `rows` in pages: `splits` = explicit page sizes (may contain 0 = empty page; must sum to rows.len()),
/// or None = pages of the request's page size (one page if none). The paging state is `mockpg:<page index>`.
pub fn paginate(rows: Vec<Vec<wire::Cell>>, splits: Option<&[usize]>, params: Option<&wire::QueryParams>) -> Result<(Vec<Vec<wire::Cell>>, Option<Vec<u8>>), String> {
    let page: usize = match params.and_then(|p| p.paging_state.as_ref()) {
        None => 0,
        Some(ps) => std::str::from_utf8(ps).ok().and_then(|s| s.strip_prefix("mockpg:")).and_then(|s| s.parse().ok()).ok_or_else(|| format!("unknown paging state {:?}", vcore::hex(ps)))?,
    };
    let auto: Vec<usize>;
    let splits: &[usize] = match splits {
        Some(s) => s,
        None => {
            let ps = params.and_then(|p| p.page_size).filter(|n| *n > 0).map(|n| n as usize).unwrap_or(usize::MAX);
            let mut v = Vec::new();
            let mut left = rows.len();
            while left > ps {
                v.push(ps);
                left -= ps;
            }
            v.push(left);
            auto = v;
            &auto
        }
    };
    if page >= splits.len() {
        return Err(format!("paging state points past the last page ({page} of {})", splits.len()));
    }
    let start: usize = splits[..page].iter().sum();
    let end = (start + splits[page]).min(rows.len());
    let next = if page + 1 < splits.len() { Some(format!("mockpg:{}", page + 1).into_bytes()) } else { None };
    Ok((rows[start.min(rows.len())..end].to_vec(), next))
}

// ------------------------------------------------------------------------------------------------
// gates
// ------------------------------------------------------------------------------------------------

#[derive(Clone, Debug)]
pub enum ActionKind {
    /// a TCP connection was accepted; nothing is read from it until released
    Accept { peer: SocketAddr, shard_port: bool },
    /// the node's reaction to `request` (computed at arrival) is about to be performed
    Respond { request: Arc<LogEntry>, reply: Arc<Reply> },
}
/// A server-side action parked by a hold rule.
#[derive(Clone, Debug)]
pub struct Action {
    pub id: u64,
    pub node: usize,
    pub conn: u64,
    pub shard: Option<u16>,
    pub kind: ActionKind,
}
impl Action {
    pub fn is_accept(&self) -> bool {
        matches!(self.kind, ActionKind::Accept { .. })
    }
    pub fn request(&self) -> Option<&FrameInfo> {
        match &self.kind {
            ActionKind::Respond { request, .. } => request.frame(),
            _ => None,
        }
    }
    pub fn request_entry(&self) -> Option<&Arc<LogEntry>> {
        match &self.kind {
            ActionKind::Respond { request, .. } => Some(request),
            _ => None,
        }
    }
    pub fn reply(&self) -> Option<&Reply> {
        match &self.kind {
            ActionKind::Respond { reply, .. } => Some(reply),
            _ => None,
        }
    }
    pub fn req_opcode(&self) -> Option<Opcode> {
        self.request().map(|f| f.opcode)
    }
    pub fn statement(&self) -> Option<&str> {
        self.request().and_then(|f| f.statement.as_deref())
    }
    /// the READY (or AUTHENTICATE) answer to STARTUP: releasing it completes the connection's handshake
    /// (control connections additionally REGISTER afterwards)
    pub fn is_startup_response(&self) -> bool {
        self.req_opcode() == Some(Opcode::Startup)
    }
    /// the answer to a `USE ...` query
    pub fn is_use_response(&self) -> bool {
        self.statement().map(is_use).unwrap_or(false)
    }
}
pub type HoldFn = Arc<dyn Fn(&Action) -> bool + Send + Sync>;

enum ReleaseCmd {
    Go,
    Discard,
    Replace(Reply),
}
struct HeldAction {
    action: Action,
    tx: oneshot::Sender<ReleaseCmd>,
}

// ------------------------------------------------------------------------------------------------
// state
// ------------------------------------------------------------------------------------------------

enum WriteCmd {
    Bytes(Vec<u8>),
    Close { prefix: Vec<u8>, kind: CloseKind, ack: Option<oneshot::Sender<()>> },
}

/// Snapshot of a connection's server-side state.
#[derive(Clone, Debug)]
pub struct ConnInfo {
    pub id: u64,
    pub node: usize,
    pub shard: Option<u16>,
    pub peer: SocketAddr,
    pub shard_port: bool,
    /// acknowledged keyspace
    pub keyspace: Option<String>,
    pub startup: Option<BTreeMap<String, String>>,
    /// READY/AUTH_SUCCESS was written
    pub ready: bool,
    pub registered: Vec<String>,
    pub open: bool,
    pub frames: u64,
}
struct ConnState {
    info: ConnInfo,
    tx: mpsc::UnboundedSender<WriteCmd>,
}

struct ListenerCtl {
    stop: Option<oneshot::Sender<()>>,
    handle: Option<tokio::task::JoinHandle<()>>,
}

struct NodeState {
    spec: NodeSpec,
    ip: Ipv4Addr,
    host_id: Uuid,
    rr_shard: u16,
    /// prepared-statement cache of this node: id -> text
    prepared: HashMap<Vec<u8>, String>,
    listeners: Vec<ListenerCtl>,
}

struct State {
    nodes: Vec<NodeState>,
    keyspaces: Vec<KeyspaceSpec>,
    log: Vec<Arc<LogEntry>>,
    conns: BTreeMap<u64, ConnState>,
    next_conn: u64,
    next_id: u64,
    holds: Vec<(u64, HoldFn)>,
    held: Vec<HeldAction>,
    handlers: Vec<(u64, Handler)>,
    scripts: Vec<Script>,
    unexpected: Vec<Arc<LogEntry>>,
    sys_splits: HashMap<String, Vec<usize>>,
    accept_any_keyspace: bool,
}

struct Inner {
    st: Mutex<State>,
    /// connections accepted by a listener whose task has not registered them yet
    accepting: std::sync::atomic::AtomicUsize,
    changed: Notify,
    port: u16,
    sa_port: u16,
    cluster_name: String,
}

#[derive(Clone)]
pub struct MockCluster {
    inner: Arc<Inner>,
}

pub struct MockClusterBuilder {
    nodes: Vec<NodeSpec>,
    keyspaces: Vec<KeyspaceSpec>,
    port: u16,
    cluster_name: String,
    accept_any_keyspace: bool,
}

impl MockClusterBuilder {
    pub fn node(mut self, n: NodeSpec) -> Self {
        self.nodes.push(n);
        self
    }
    pub fn keyspace(mut self, k: KeyspaceSpec) -> Self {
        self.keyspaces.push(k);
        self
    }
    /// CQL port every node listens on (default 9042); the shard-aware port is this + 10000.
    pub fn port(mut self, p: u16) -> Self {
        self.port = p;
        self
    }
    pub fn cluster_name(mut self, n: &str) -> Self {
        self.cluster_name = n.into();
        self
    }
    /// `USE x` succeeds for every syntactically plausible x, not only for configured keyspaces.
    pub fn accept_any_keyspace(mut self, yes: bool) -> Self {
        self.accept_any_keyspace = yes;
        self
    }
    pub async fn build(self) -> Result<MockCluster, String> {
        let c = MockCluster {
            inner: Arc::new(Inner {
                accepting: std::sync::atomic::AtomicUsize::new(0),
                st: Mutex::new(State {
                    nodes: Vec::new(),
                    keyspaces: self.keyspaces,
                    log: Vec::new(),
                    conns: BTreeMap::new(),
                    next_conn: 0,
                    next_id: 1,
                    holds: Vec::new(),
                    held: Vec::new(),
                    handlers: Vec::new(),
                    scripts: Vec::new(),
                    unexpected: Vec::new(),
                    sys_splits: HashMap::new(),
                    accept_any_keyspace: self.accept_any_keyspace,
                }),
                changed: Notify::new(),
                port: self.port,
                sa_port: self.port.wrapping_add(SHARD_AWARE_PORT_OFFSET),
                cluster_name: self.cluster_name,
            }),
        };
        for n in self.nodes {
            c.add_node(n).await?;
        }
        Ok(c)
    }
}

impl MockCluster {
    pub fn builder() -> MockClusterBuilder {
        MockClusterBuilder { nodes: Vec::new(), keyspaces: Vec::new(), port: DEFAULT_PORT, cluster_name: "mockcluster".into(), accept_any_keyspace: false }
    }

    fn lock(&self) -> std::sync::MutexGuard<'_, State> {
        self.inner.st.lock().unwrap_or_else(|e| e.into_inner())
    }
    fn notify(&self) {
        self.inner.changed.notify_waiters();
    }

    // ---------------------------------------------------------------------------------------- topology

    /// Add a node (also at run time). Binds its listeners unless `spec.listening` is false. Returns its index.
    pub async fn add_node(&self, spec: NodeSpec) -> Result<usize, String> {
        let want_listen = spec.listening;
        let mut attempts = 0;
        let (ip, bound) = loop {
            let ip = spec.addr.unwrap_or_else(alloc_ip);
            if !want_listen {
                break (ip, Vec::new());
            }
            match self.bind_listeners(ip, &spec).await {
                Ok(l) => break (ip, l),
                Err(e) if spec.addr.is_none() && attempts < 2000 => {
                    attempts += 1;
                    let _ = e;
                    continue;
                }
                Err(e) => return Err(format!("mock node cannot bind {ip}: {e}")),
            }
        };
        let index = {
            let mut st = self.lock();
            let index = st.nodes.len();
            let host_id = spec.host_id.unwrap_or_else(|| Uuid::from_u128(0x1000_0000_0000_4000_8000_0000_0000_0000u128 + (u32::from(ip) as u128)));
            st.nodes.push(NodeState { spec, ip, host_id, rr_shard: 0, prepared: HashMap::new(), listeners: Vec::new() });
            index
        };
        let ctls: Vec<ListenerCtl> = bound.into_iter().map(|(l, sp)| self.spawn_listener(index, l, sp)).collect();
        self.lock().nodes[index].listeners = ctls;
        Ok(index)
    }

    async fn bind_listeners(&self, ip: Ipv4Addr, spec: &NodeSpec) -> Result<Vec<(TcpListener, bool)>, String> {
        let mut v = Vec::new();
        let l = TcpListener::bind(SocketAddr::new(ip.into(), self.inner.port)).await.map_err(|e| e.to_string())?;
        v.push((l, false));
        if spec.shards.is_some() && spec.shard_aware_port {
            let l = TcpListener::bind(SocketAddr::new(ip.into(), self.inner.sa_port)).await.map_err(|e| e.to_string())?;
            v.push((l, true));
        }
        Ok(v)
    }

    fn spawn_listener(&self, node: usize, l: TcpListener, shard_port: bool) -> ListenerCtl {
        let (stop_tx, mut stop_rx) = oneshot::channel::<()>();
        let me = self.clone();
        let handle = tokio::spawn(async move {
            loop {
                tokio::select! {
                    biased;
                    _ = &mut stop_rx => break,
                    r = l.accept() => match r {
                        Ok((stream, peer)) => {
                            let me2 = me.clone();
                            me.inner.accepting.fetch_add(1, Ordering::SeqCst);
                            tokio::spawn(async move { me2.run_conn(node, stream, peer, shard_port).await });
                        }
                        Err(_) => tokio::task::yield_now().await,
                    }
                }
            }
            drop(l);
        });
        ListenerCtl { stop: Some(stop_tx), handle: Some(handle) }
    }

    /// Close the node's listening sockets: new connection attempts are refused. Returns when they are closed.
    pub async fn stop_listening(&self, node: usize) {
        let ctls: Vec<ListenerCtl> = std::mem::take(&mut self.lock().nodes[node].listeners);
        for mut c in ctls {
            if let Some(s) = c.stop.take() {
                let _ = s.send(());
            }
            if let Some(h) = c.handle.take() {
                let _ = h.await;
            }
        }
    }
    pub async fn start_listening(&self, node: usize) -> Result<(), String> {
        self.stop_listening(node).await;
        let (ip, spec) = {
            let st = self.lock();
            (st.nodes[node].ip, st.nodes[node].spec.clone())
        };
        let bound = self.bind_listeners(ip, &spec).await?;
        let ctls: Vec<ListenerCtl> = bound.into_iter().map(|(l, sp)| self.spawn_listener(node, l, sp)).collect();
        self.lock().nodes[node].listeners = ctls;
        Ok(())
    }
    /// Stop listening and reset every connection of the node.
    pub async fn kill_node(&self, node: usize) {
        self.stop_listening(node).await;
        let ids: Vec<u64> = self.lock().conns.values().filter(|c| c.info.node == node && c.info.open).map(|c| c.info.id).collect();
        for id in ids {
            self.close_conn(id, CloseKind::Rst).await;
        }
    }
    /// Show/hide the node in system.local/system.peers.
    pub fn set_in_ring(&self, node: usize, yes: bool) {
        self.lock().nodes[node].spec.in_ring = yes;
    }
    /// "Restart with other sharding parameters": connections accepted from now on are bound (and SUPPORTED answers) per
    /// the new (nr_shards, msb_ignore) / None = not sharded; open connections keep the shard they have - close them
    /// yourself. The round-robin counter of the plain port restarts at 0. A node built unsharded has no shard-aware listener.
    pub fn set_sharding(&self, node: usize, shards: Option<(u16, u8)>) {
        let mut st = self.lock();
        st.nodes[node].spec.shards = shards;
        st.nodes[node].rr_shard = 0;
    }
    /// Serve another datacenter / rack for the node in system.local / system.peers from now on.
    pub fn set_location(&self, node: usize, dc: &str, rack: &str) {
        let mut st = self.lock();
        st.nodes[node].spec.dc = dc.into();
        st.nodes[node].spec.rack = rack.into();
    }
    pub fn set_tokens(&self, node: usize, tokens: Vec<i64>) {
        self.lock().nodes[node].spec.tokens = tokens;
    }
    pub fn set_keyspaces(&self, ks: Vec<KeyspaceSpec>) {
        self.lock().keyspaces = ks;
    }
    /// Serve a system table (e.g. "system.peers") in these page sizes (must sum to its row count).
    pub fn set_system_page_splits(&self, table: &str, splits: Option<Vec<usize>>) {
        let mut st = self.lock();
        match splits {
            Some(s) => {
                st.sys_splits.insert(table.to_string(), s);
            }
            None => {
                st.sys_splits.remove(table);
            }
        }
    }

    pub fn port(&self) -> u16 {
        self.inner.port
    }
    pub fn shard_aware_port(&self) -> u16 {
        self.inner.sa_port
    }
    pub fn node_count(&self) -> usize {
        self.lock().nodes.len()
    }
    pub fn ip(&self, node: usize) -> Ipv4Addr {
        self.lock().nodes[node].ip
    }
    pub fn addr(&self, node: usize) -> SocketAddr {
        SocketAddr::new(self.ip(node).into(), self.inner.port)
    }
    /// "ip:port" of a node, for `SessionBuilder::known_node`.
    pub fn contact_point(&self, node: usize) -> String {
        self.addr(node).to_string()
    }
    pub fn host_id(&self, node: usize) -> Uuid {
        self.lock().nodes[node].host_id
    }
    pub fn node_of_ip(&self, ip: IpAddr) -> Option<usize> {
        self.lock().nodes.iter().position(|n| IpAddr::from(n.ip) == ip)
    }
    pub fn node_of_host_id(&self, id: Uuid) -> Option<usize> {
        self.lock().nodes.iter().position(|n| n.host_id == id)
    }
    pub fn node_views(&self) -> Vec<NodeView> {
        Self::views(&self.lock())
    }
    fn views(st: &State) -> Vec<NodeView> {
        st.nodes
            .iter()
            .enumerate()
            .map(|(i, n)| NodeView {
                index: i,
                ip: n.ip,
                host_id: n.host_id,
                dc: n.spec.dc.clone(),
                rack: n.spec.rack.clone(),
                tokens: n.spec.tokens.clone(),
                in_ring: n.spec.in_ring,
                null_host_id: n.spec.null_host_id,
            })
            .collect()
    }

    // ---------------------------------------------------------------------------------------- handlers

    /// Install a handler in FRONT of the existing ones. Returns an id for `remove_handler`.
    pub fn handle(&self, h: impl Fn(&ReqCtx) -> Option<Reply> + Send + Sync + 'static) -> u64 {
        let mut st = self.lock();
        let id = st.next_id;
        st.next_id += 1;
        st.handlers.insert(0, (id, Arc::new(h)));
        id
    }
    pub fn remove_handler(&self, id: u64) {
        self.lock().handlers.retain(|(i, _)| *i != id);
    }
    /// Register a scripted statement (later registrations win).
    pub fn script(&self, s: Script) {
        self.lock().scripts.insert(0, s);
    }
    pub fn clear_scripts(&self) {
        self.lock().scripts.clear();
    }
    /// Forget prepared statements of a node (all, or one id): the next EXECUTE gets UNPREPARED.
    pub fn evict_prepared(&self, node: usize, id: Option<&[u8]>) {
        let mut st = self.lock();
        match id {
            Some(id) => {
                st.nodes[node].prepared.remove(id);
            }
            None => st.nodes[node].prepared.clear(),
        }
    }
    pub fn prepared_text(&self, node: usize, id: &[u8]) -> Option<String> {
        self.lock().nodes[node].prepared.get(id).cloned()
    }
    /// Teach a node an id -> text mapping (for handlers that answer PREPARE themselves).
    pub fn register_prepared(&self, node: usize, id: &[u8], text: &str) {
        self.lock().nodes[node].prepared.insert(id.to_vec(), text.to_string());
    }
    /// Frames that fell through to the fallback error (unscripted statements etc.).
    pub fn unexpected(&self) -> Vec<Arc<LogEntry>> {
        self.lock().unexpected.clone()
    }

    // ---------------------------------------------------------------------------------------- log

    pub fn log(&self) -> Vec<Arc<LogEntry>> {
        self.lock().log.clone()
    }
    pub fn log_len(&self) -> u64 {
        self.lock().log.len() as u64
    }
    /// Entries with seq >= from.
    pub fn log_since(&self, from: u64) -> Vec<Arc<LogEntry>> {
        let st = self.lock();
        st.log[(from as usize).min(st.log.len())..].to_vec()
    }
    /// All request frames.
    pub fn frames(&self) -> Vec<Arc<LogEntry>> {
        self.lock().log.iter().filter(|e| e.frame().is_some()).cloned().collect()
    }
    pub fn dump_log(&self) -> String {
        self.lock().log.iter().map(|e| e.describe()).collect::<Vec<_>>().join("\n")
    }
    pub fn conns(&self) -> Vec<ConnInfo> {
        self.lock().conns.values().map(|c| c.info.clone()).collect()
    }
    pub fn conn(&self, id: u64) -> Option<ConnInfo> {
        self.lock().conns.get(&id).map(|c| c.info.clone())
    }
    pub fn open_conns(&self, node: Option<usize>) -> Vec<ConnInfo> {
        self.lock().conns.values().filter(|c| c.info.open && node.map(|n| c.info.node == n).unwrap_or(true)).map(|c| c.info.clone()).collect()
    }

    async fn wait_state<T>(&self, what: &str, timeout: Duration, mut f: impl FnMut(&State) -> Option<T>) -> Result<T, String> {
        let deadline = Instant::now() + timeout;
        loop {
            let notified = self.inner.changed.notified();
            tokio::pin!(notified);
            notified.as_mut().enable();
            if let Some(t) = f(&self.lock()) {
                return Ok(t);
            }
            if tokio::time::timeout_at(deadline, notified).await.is_err() {
                if let Some(t) = f(&self.lock()) {
                    return Ok(t);
                }
                return Err(format!("mock: deadline ({timeout:?}) passed waiting for: {what}"));
            }
        }
    }

    /// Wait (condition, not sleep) until `f(log)` returns Some. `what` names the condition in the timeout error.
    pub async fn wait_for<T>(&self, what: &str, timeout: Duration, mut f: impl FnMut(&[Arc<LogEntry>]) -> Option<T>) -> Result<T, String> {
        self.wait_state(what, timeout, |st| f(&st.log)).await
    }
    /// Wait for the first log entry with seq >= from satisfying `pred`.
    pub async fn wait_entry(&self, what: &str, from: u64, pred: impl Fn(&LogEntry) -> bool) -> Result<Arc<LogEntry>, String> {
        self.wait_state(what, DEADLINE, |st| st.log.iter().skip(from as usize).find(|e| pred(e)).cloned()).await
    }
    /// Wait until at least `n` entries with seq >= from satisfy `pred`; returns them.
    pub async fn wait_count(&self, what: &str, from: u64, n: usize, pred: impl Fn(&LogEntry) -> bool) -> Result<Vec<Arc<LogEntry>>, String> {
        self.wait_state(what, DEADLINE, |st| {
            let v: Vec<_> = st.log.iter().skip(from as usize).filter(|e| pred(e)).cloned().collect();
            if v.len() >= n { Some(v) } else { None }
        })
        .await
    }
    /// Wait until a predicate over the connection table holds (e.g. "node 1 has 2 ready connections").
    pub async fn wait_conns<T>(&self, what: &str, timeout: Duration, mut f: impl FnMut(&[ConnInfo]) -> Option<T>) -> Result<T, String> {
        self.wait_state(what, timeout, |st| {
            let v: Vec<ConnInfo> = st.conns.values().map(|c| c.info.clone()).collect();
            f(&v)
        })
        .await
    }
    /// Settle window: returns once no log entry was appended for `window` (wall clock; for expected-ABSENT events only).
    pub async fn quiesce(&self, window: Duration) {
        loop {
            let n = self.log_len();
            let notified = self.inner.changed.notified();
            tokio::pin!(notified);
            notified.as_mut().enable();
            if self.log_len() != n {
                continue;
            }
            if tokio::time::timeout(window, notified).await.is_err() && self.log_len() == n {
                return;
            }
        }
    }

    // ---------------------------------------------------------------------------------------- gates

    /// From now on park every server-side action matching `pred` until released. Returns the rule id.
    pub fn hold(&self, pred: impl Fn(&Action) -> bool + Send + Sync + 'static) -> u64 {
        let mut st = self.lock();
        let id = st.next_id;
        st.next_id += 1;
        st.holds.push((id, Arc::new(pred)));
        id
    }
    /// Remove a hold rule (already parked actions stay parked until released).
    pub fn unhold(&self, rule: u64) {
        self.lock().holds.retain(|(i, _)| *i != rule);
    }
    pub fn unhold_all(&self) {
        self.lock().holds.clear();
    }
    /// Currently parked actions, in the order they were parked.
    pub fn held(&self) -> Vec<Action> {
        self.lock().held.iter().map(|h| h.action.clone()).collect()
    }
    /// Wait until a parked action satisfies `pred` (first such, in parking order).
    pub async fn wait_held(&self, what: &str, pred: impl Fn(&Action) -> bool) -> Result<Action, String> {
        self.wait_state(what, DEADLINE, |st| st.held.iter().map(|h| &h.action).find(|a| pred(a)).cloned()).await
    }
    /// `wait_held` with an explicit timeout (for harnesses that interleave waiting with other activity).
    pub async fn wait_held_for(&self, what: &str, timeout: Duration, pred: impl Fn(&Action) -> bool) -> Result<Action, String> {
        self.wait_state(what, timeout, |st| st.held.iter().map(|h| &h.action).find(|a| pred(a)).cloned()).await
    }
    /// Wait until at least n parked actions satisfy `pred`.
    pub async fn wait_held_count(&self, what: &str, n: usize, pred: impl Fn(&Action) -> bool) -> Result<Vec<Action>, String> {
        self.wait_state(what, DEADLINE, |st| {
            let v: Vec<Action> = st.held.iter().map(|h| &h.action).filter(|a| pred(a)).cloned().collect();
            if v.len() >= n { Some(v) } else { None }
        })
        .await
    }
    fn take_held(&self, action_id: u64) -> Option<HeldAction> {
        let mut st = self.lock();
        let i = st.held.iter().position(|h| h.action.id == action_id)?;
        Some(st.held.remove(i))
    }
    /// Perform a parked action now. False if it is not parked (any more).
    pub fn release(&self, action_id: u64) -> bool {
        let r = self.take_held(action_id).map(|h| h.tx.send(ReleaseCmd::Go).is_ok()).unwrap_or(false);
        self.notify();
        r
    }
    /// Perform a different reaction instead of the parked one.
    pub fn release_with(&self, action_id: u64, reply: Reply) -> bool {
        let r = self.take_held(action_id).map(|h| h.tx.send(ReleaseCmd::Replace(reply)).is_ok()).unwrap_or(false);
        self.notify();
        r
    }
    /// Never perform the parked action (a held response is never sent; a held accepted connection is reset).
    pub fn discard(&self, action_id: u64) -> bool {
        let r = self.take_held(action_id).map(|h| h.tx.send(ReleaseCmd::Discard).is_ok()).unwrap_or(false);
        self.notify();
        r
    }
    /// Release everything currently parked (in parking order). Returns how many.
    pub fn release_all(&self) -> usize {
        let held: Vec<HeldAction> = std::mem::take(&mut self.lock().held);
        let n = held.len();
        for h in held {
            let _ = h.tx.send(ReleaseCmd::Go);
        }
        self.notify();
        n
    }

    fn gate(&self, node: usize, conn: u64, shard: Option<u16>, kind: ActionKind) -> Option<oneshot::Receiver<ReleaseCmd>> {
        // predicates run without the state lock (they may call cluster methods)
        let rules: Vec<(u64, HoldFn)> = self.lock().holds.clone();
        if rules.is_empty() {
            return None;
        }
        let action = Action { id: 0, node, conn, shard, kind };
        let matched = rules.iter().find(|(_, f)| f(&action)).map(|(i, _)| *i)?;
        let rx = {
            let mut st = self.lock();
            if !st.holds.iter().any(|(i, _)| *i == matched) {
                return None; // rule removed meanwhile
            }
            let id = st.next_id;
            st.next_id += 1;
            let (tx, rx) = oneshot::channel();
            st.held.push(HeldAction { action: Action { id, ..action }, tx });
            rx
        };
        self.notify();
        Some(rx)
    }

    // ---------------------------------------------------------------------------------------- faults / events

    /// Close a connection from the server side (FIN, or RST via SO_LINGER 0). Returns when the socket is closed;
    /// false if the connection was already gone.
    pub async fn close_conn(&self, conn: u64, kind: CloseKind) -> bool {
        let (tx, rx) = oneshot::channel();
        let sent = {
            let st = self.lock();
            match st.conns.get(&conn) {
                Some(c) if c.info.open => c.tx.send(WriteCmd::Close { prefix: Vec::new(), kind, ack: Some(tx) }).is_ok(),
                _ => false,
            }
        };
        sent && rx.await.is_ok()
    }
    /// Write arbitrary bytes on a connection, behind everything already released on it (garbage header, wrong
    /// protocol version, a frame for a stream nobody waits on). Not logged. False if the connection is gone.
    pub fn send_raw(&self, conn: u64, bytes: Vec<u8>) -> bool {
        let st = self.lock();
        match st.conns.get(&conn) {
            Some(c) if c.info.open => c.tx.send(WriteCmd::Bytes(bytes)).is_ok(),
            _ => false,
        }
    }
    /// Push an event to every open connection of `node` that REGISTERed for its type. Returns how many got it.
    pub fn push_event(&self, node: usize, event: Event) -> usize {
        let frame = Envelope::from(Response::Event(event.clone())).encode_frame(-1);
        let mut n = 0;
        {
            let mut st = self.lock();
            let targets: Vec<(u64, Option<u16>)> = st
                .conns
                .values()
                .filter(|c| c.info.open && c.info.node == node && c.info.registered.iter().any(|t| t == event.kind()))
                .map(|c| (c.info.id, c.info.shard))
                .collect();
            for (id, shard) in targets {
                if st.conns[&id].tx.send(WriteCmd::Bytes(frame.clone())).is_ok() {
                    Self::push_log(&mut st, node, id, shard, LogKind::EventPushed { event: event.clone() });
                    n += 1;
                }
            }
        }
        self.notify();
        n
    }
    /// Stop all listeners, then reset every connection (no TIME_WAIT is left behind). Call before dropping the Session.
    /// Listeners go first so that a driver that fails over to another node while its connections are being reset
    /// cannot slip in a late connection that would outlive the shutdown.
    pub async fn shutdown(&self) {
        self.unhold_all();
        let held: Vec<HeldAction> = std::mem::take(&mut self.lock().held);
        for h in held {
            let _ = h.tx.send(ReleaseCmd::Discard);
        }
        let n = self.node_count();
        for i in 0..n {
            self.stop_listening(i).await;
        }
        // connections accepted just before the listeners closed register themselves asynchronously
        loop {
            while self.inner.accepting.load(Ordering::SeqCst) > 0 {
                tokio::task::yield_now().await;
            }
            let ids: Vec<u64> = self.lock().conns.values().filter(|c| c.info.open).map(|c| c.info.id).collect();
            if ids.is_empty() {
                break;
            }
            for id in ids {
                self.close_conn(id, CloseKind::Rst).await;
            }
        }
    }

    // ---------------------------------------------------------------------------------------- connection task

    fn push_log(st: &mut State, node: usize, conn: u64, shard: Option<u16>, kind: LogKind) -> Arc<LogEntry> {
        let e = Arc::new(LogEntry { seq: st.log.len() as u64, node, conn, shard, kind });
        st.log.push(e.clone());
        e
    }

    async fn run_conn(&self, node: usize, mut stream: TcpStream, peer: SocketAddr, shard_port: bool) {
        let _ = stream.set_nodelay(true);
        let (tx, mut rx) = mpsc::unbounded_channel::<WriteCmd>();
        let (conn, shard) = {
            let mut st = self.lock();
            let id = st.next_conn;
            st.next_conn += 1;
            let ns = &mut st.nodes[node];
            let shard = ns.spec.shards.map(|(nr, _)| {
                if shard_port {
                    let asked = peer.port() % nr;
                    ns.spec.shard_port_map.as_ref().and_then(|m| m.get(asked as usize).copied()).map(|s| s % nr).unwrap_or(asked)
                } else {
                    match ns.spec.plain_port_shard {
                        PlainPortShard::Fixed(s) => s % nr,
                        PlainPortShard::RoundRobin => {
                            let s = ns.rr_shard % nr;
                            ns.rr_shard = (ns.rr_shard + 1) % nr;
                            s
                        }
                    }
                }
            });
            st.conns.insert(
                id,
                ConnState {
                    info: ConnInfo { id, node, shard, peer, shard_port, keyspace: None, startup: None, ready: false, registered: Vec::new(), open: true, frames: 0 },
                    tx,
                },
            );
            Self::push_log(&mut st, node, id, shard, LogKind::Open { peer, shard_port });
            (id, shard)
        };
        self.inner.accepting.fetch_sub(1, Ordering::SeqCst);
        self.notify();

        let mut closed_by = None;
        if let Some(g) = self.gate(node, conn, shard, ActionKind::Accept { peer, shard_port }) {
            match g.await {
                Ok(ReleaseCmd::Go) | Ok(ReleaseCmd::Replace(_)) => {}
                Ok(ReleaseCmd::Discard) | Err(_) => closed_by = Some(ClosedBy::Server(CloseKind::Rst)),
            }
        }
        let mut buf = BytesMut::with_capacity(16 * 1024);
        while closed_by.is_none() {
            tokio::select! {
                biased;
                cmd = rx.recv() => match cmd {
                    Some(WriteCmd::Bytes(b)) => {
                        if stream.write_all(&b).await.is_err() {
                            closed_by = Some(ClosedBy::ReadError);
                        }
                    }
                    Some(WriteCmd::Close { prefix, kind, ack }) => {
                        if !prefix.is_empty() {
                            let _ = stream.write_all(&prefix).await;
                            let _ = stream.flush().await;
                        }
                        closed_by = Some(ClosedBy::Server(kind));
                        self.finish_conn(node, conn, shard, stream, closed_by.unwrap());
                        if let Some(a) = ack {
                            let _ = a.send(());
                        }
                        return;
                    }
                    None => closed_by = Some(ClosedBy::ReadError),
                },
                r = stream.read_buf(&mut buf) => match r {
                    Ok(0) => closed_by = Some(ClosedBy::Client),
                    Err(_) => closed_by = Some(ClosedBy::ReadError),
                    Ok(_) => {
                        loop {
                            if buf.len() < wire::HEADER_LEN {
                                break;
                            }
                            let h = wire::Header::parse(buf[..wire::HEADER_LEN].try_into().unwrap());
                            let total = wire::HEADER_LEN + h.length as usize;
                            if buf.len() < total {
                                buf.reserve(total - buf.len());
                                break;
                            }
                            let frame = buf.split_to(total);
                            self.on_frame(node, conn, shard, h, &frame[wire::HEADER_LEN..]);
                        }
                    }
                },
            }
        }
        self.finish_conn(node, conn, shard, stream, closed_by.unwrap());
    }

    fn finish_conn(&self, node: usize, conn: u64, shard: Option<u16>, stream: TcpStream, by: ClosedBy) {
        if by == ClosedBy::Server(CloseKind::Rst) {
            let _ = socket2::SockRef::from(&stream).set_linger(Some(Duration::ZERO));
        }
        drop(stream);
        {
            let mut st = self.lock();
            if let Some(c) = st.conns.get_mut(&conn) {
                c.info.open = false;
            }
            Self::push_log(&mut st, node, conn, shard, LogKind::Closed { by });
        }
        self.notify();
    }

    fn on_frame(&self, node: usize, conn: u64, shard: Option<u16>, h: wire::Header, body: &[u8]) {
        // 1. parse + log
        let (entry, handlers, keyspace, metadata_id, lwt_mark, statement) = {
            let mut st = self.lock();
            let c = &st.conns[&conn];
            let startup = c.info.startup.clone().unwrap_or_default();
            let metadata_id = startup.contains_key("SCYLLA_USE_METADATA_ID");
            let lwt_mark = startup.get("SCYLLA_LWT_ADD_METADATA_MARK").and_then(|v| v.strip_prefix("LWT_OPTIMIZATION_META_BIT_MASK=")).and_then(|v| v.parse::<u32>().ok());
            let keyspace = c.info.keyspace.clone();
            let control = !c.info.registered.is_empty();
            let (request, _payload) = wire::parse_request(h.opcode, h.flags, body, ParseCtx { metadata_id });
            let statement = match &request {
                Request::Query { text, .. } | Request::Prepare { text } => Some(text.clone()),
                Request::Execute { id, .. } => st.nodes[node].prepared.get(id).cloned(),
                _ => None,
            };
            // arrival side effects
            match &request {
                Request::Startup { options } => st.conns.get_mut(&conn).unwrap().info.startup = Some(options.clone()),
                Request::Register { events } => st.conns.get_mut(&conn).unwrap().info.registered = events.clone(),
                _ => {}
            }
            st.conns.get_mut(&conn).unwrap().info.frames += 1;
            let info = FrameInfo {
                stream: h.stream,
                opcode: Opcode::from_u8(h.opcode),
                flags: h.flags,
                request,
                body: body.to_vec(),
                keyspace: keyspace.clone(),
                statement: statement.clone(),
                control,
            };
            let entry = Self::push_log(&mut st, node, conn, shard, LogKind::Frame(info));
            let handlers: Vec<Handler> = st.handlers.iter().map(|(_, h)| h.clone()).collect();
            (entry, handlers, keyspace, metadata_id, lwt_mark, statement)
        };
        self.notify();
        // 2. decide the reaction (no lock held)
        let request = &entry.frame().unwrap().request;
        let ctx = ReqCtx { cluster: self, node, conn, shard, stream: h.stream, request, entry: &entry, keyspace, statement, metadata_id, lwt_mark };
        let mut reply = None;
        for hd in &handlers {
            if let Some(r) = hd(&ctx) {
                reply = Some(r);
                break;
            }
        }
        let reply = reply.unwrap_or_else(|| self.builtin(&ctx));
        // 3. gate, then perform
        let reply = Arc::new(reply);
        match self.gate(node, conn, shard, ActionKind::Respond { request: entry.clone(), reply: reply.clone() }) {
            None => self.perform(node, conn, shard, &entry, (*reply).clone()),
            Some(rx) => {
                let me = self.clone();
                let entry = entry.clone();
                tokio::spawn(async move {
                    match rx.await {
                        Ok(ReleaseCmd::Go) => me.perform(node, conn, shard, &entry, (*reply).clone()),
                        Ok(ReleaseCmd::Replace(r)) => me.perform(node, conn, shard, &entry, r),
                        Ok(ReleaseCmd::Discard) | Err(_) => {}
                    }
                });
            }
        }
    }

    fn perform(&self, node: usize, conn: u64, shard: Option<u16>, req: &Arc<LogEntry>, reply: Reply) {
        let f = req.frame().unwrap();
        let stream = f.stream;
        let fix = |mut env: Envelope| -> Envelope {
            if let Response::Rows(r) = &mut env.response {
                if r.honor_skip_metadata && f.request.params().map(|p| p.skip_metadata).unwrap_or(false) && r.metadata.new_metadata_id.is_none() {
                    r.metadata.no_metadata = true;
                }
            }
            env
        };
        {
            let mut st = self.lock();
            let Some(c) = st.conns.get_mut(&conn) else { return };
            if !c.info.open {
                return;
            }
            let (env, cmd) = match reply {
                Reply::Silent => return,
                Reply::Close(kind) => (None, WriteCmd::Close { prefix: Vec::new(), kind, ack: None }),
                Reply::Frame(env) => {
                    let env = fix(env);
                    let b = env.encode_frame(stream);
                    (Some(env), WriteCmd::Bytes(b))
                }
                Reply::FrameThenClose(env, kind) => {
                    let env = fix(env);
                    let b = env.encode_frame(stream);
                    (Some(env), WriteCmd::Close { prefix: b, kind, ack: None })
                }
                Reply::CutFrame { env, bytes, then } => {
                    let env = fix(env);
                    let mut b = env.encode_frame(stream);
                    b.truncate(bytes.min(b.len()));
                    (None, WriteCmd::Close { prefix: b, kind: then, ack: None })
                }
            };
            if let Some(env) = &env {
                // acknowledged state changes BEFORE the bytes leave, so that no later frame of the client can
                // overtake the bookkeeping
                match &env.response {
                    Response::SetKeyspace(k) => c.info.keyspace = Some(k.clone()),
                    Response::Ready if f.opcode == Opcode::Startup => c.info.ready = true,
                    Response::AuthSuccess(_) => c.info.ready = true,
                    _ => {}
                }
            }
            let _ = c.tx.send(cmd);
            if let Some(env) = env {
                Self::push_log(&mut st, node, conn, shard, LogKind::Sent { stream, request_seq: Some(req.seq), response: Arc::new(env) });
            }
        }
        self.notify();
    }

    // ---------------------------------------------------------------------------------------- built-in behaviour

    fn supported(&self, node: usize, shard: Option<u16>) -> Response {
        let st = self.lock();
        let spec = &st.nodes[node].spec;
        let mut m: Vec<(String, Vec<String>)> = vec![("CQL_VERSION".into(), vec!["3.4.5".into()]), ("COMPRESSION".into(), vec![])];
        if let Some((nr, msb)) = spec.shards {
            m.push(("SCYLLA_SHARD".into(), vec![shard.unwrap_or(0).to_string()]));
            m.push(("SCYLLA_NR_SHARDS".into(), vec![nr.to_string()]));
            m.push(("SCYLLA_SHARDING_IGNORE_MSB".into(), vec![msb.to_string()]));
            m.push(("SCYLLA_PARTITIONER".into(), vec!["org.apache.cassandra.dht.Murmur3Partitioner".into()]));
            m.push(("SCYLLA_SHARDING_ALGORITHM".into(), vec!["biased-token-round-robin".into()]));
            if spec.shard_aware_port {
                m.push(("SCYLLA_SHARD_AWARE_PORT".into(), vec![self.inner.sa_port.to_string()]));
            }
        }
        if spec.tablets_v1 {
            m.push(("TABLETS_ROUTING_V1".into(), vec!["".into()]));
        }
        if spec.metadata_id {
            m.push(("SCYLLA_USE_METADATA_ID".into(), vec!["".into()]));
        }
        if let Some(mask) = spec.lwt_mark {
            m.push(("SCYLLA_LWT_ADD_METADATA_MARK".into(), vec![format!("LWT_OPTIMIZATION_META_BIT_MASK={mask}")]));
        }
        if let Some(code) = spec.rate_limit_error {
            m.push(("SCYLLA_RATE_LIMIT_ERROR".into(), vec![format!("ERROR_CODE={code}")]));
        }
        m.extend(spec.extra_supported.iter().cloned());
        Response::Supported(m)
    }

    fn fallback(&self, ctx: &ReqCtx, why: &str) -> Reply {
        self.lock().unexpected.push(ctx.entry.clone());
        Reply::error(ErrorBody::server_error(&format!("mock: {why}")))
    }

    /// The reaction of the built-in node logic (handshake, USE, system tables, scripts, fallback error).
    /// Public so that a handler can delegate: `ctx.cluster.builtin(ctx)`.
    pub fn builtin(&self, ctx: &ReqCtx) -> Reply {
        match ctx.request {
            Request::Options => self.supported(ctx.node, ctx.shard).into(),
            Request::Startup { .. } => match self.lock().nodes[ctx.node].spec.authenticator.clone() {
                Some(class) => Response::Authenticate(class).into(),
                None => Response::Ready.into(),
            },
            Request::AuthResponse { .. } => Response::AuthSuccess(None).into(),
            Request::Register { .. } => Response::Ready.into(),
            Request::Malformed { why, .. } => Reply::error(ErrorBody::simple(wire::errcode::PROTOCOL_ERROR, why)),
            Request::Prepare { text } => self.builtin_prepare(ctx, text),
            Request::Query { text, .. } => self.builtin_run(ctx, text),
            Request::Execute { id, .. } => match ctx.statement.clone() {
                Some(text) => self.builtin_run(ctx, &text),
                None => Reply::error(ErrorBody::unprepared(id)),
            },
            Request::Batch { statements, .. } => {
                let st = self.lock();
                for s in statements {
                    let text = match s {
                        wire::BatchStmt::Query { text, .. } => Some(text.clone()),
                        wire::BatchStmt::Prepared { id, .. } => match st.nodes[ctx.node].prepared.get(id) {
                            Some(t) => Some(t.clone()),
                            None => return Reply::error(ErrorBody::unprepared(id)),
                        },
                    };
                    let known = text.as_deref().map(|t| st.scripts.iter().any(|sc| sc.matches(ctx.node, t))).unwrap_or(false);
                    if !known {
                        drop(st);
                        return self.fallback(ctx, &format!("unscripted statement in BATCH: {text:?}"));
                    }
                }
                Reply::void()
            }
        }
    }

    fn sys_prepare_meta(&self, ctx: &ReqCtx, text: &str) -> Option<Result<(systables::SysSelect, systables::SysTable, Vec<ColSpec>), Reply>> {
        let sel = systables::parse_select(text)?;
        let is_scylla = self.lock().nodes[ctx.node].spec.shards.is_some();
        let Some(t) = systables::find_table(&sel).filter(|t| is_scylla || !t.scylla_only) else {
            return Some(Err(Reply::error(ErrorBody::invalid(&format!("unconfigured table {}", sel.table)))));
        };
        match systables::select_cols(&sel, &t) {
            Ok(cols) => Some(Ok((sel, t, cols))),
            Err(c) => Some(Err(Reply::error(ErrorBody::invalid(&format!("Undefined column name {c}"))))),
        }
    }

    fn builtin_prepare(&self, ctx: &ReqCtx, text: &str) -> Reply {
        let id = prepared_id(text);
        if let Some(r) = self.sys_prepare_meta(ctx, text) {
            let (sel, t, cols) = match r {
                Ok(x) => x,
                Err(reply) => return reply,
            };
            let bind_cols = if sel.keyspace_filter { vec![wire::col(t.keyspace, t.table, "keyspace_name", wire::ColType::List(Box::new(wire::ColType::Text)))] } else { vec![] };
            self.lock().nodes[ctx.node].prepared.insert(id.clone(), text.to_string());
            return Response::Prepared(PreparedResult {
                id,
                result_metadata_id: ctx.metadata_id.then(|| metadata_id_of(&cols)),
                bind_cols,
                pk_indexes: vec![],
                result: RowsMetadata { cols, ..Default::default() },
                extra_flags: 0,
            })
            .into();
        }
        let script = self.lock().scripts.iter().find(|s| s.matches(ctx.node, text)).cloned();
        match script {
            Some(s) => {
                self.lock().nodes[ctx.node].prepared.insert(id.clone(), text.to_string());
                Response::Prepared(PreparedResult {
                    id,
                    result_metadata_id: ctx.metadata_id.then(|| metadata_id_of(&s.result_cols)),
                    bind_cols: s.bind_cols.clone(),
                    pk_indexes: s.pk_indexes.clone(),
                    result: RowsMetadata { cols: s.result_cols.clone(), ..Default::default() },
                    extra_flags: if s.lwt { ctx.lwt_mark.unwrap_or(0) as i32 } else { 0 },
                })
                .into()
            }
            None => self.fallback(ctx, &format!("PREPARE of an unscripted statement: {text:?}")),
        }
    }

    fn builtin_run(&self, ctx: &ReqCtx, text: &str) -> Reply {
        if is_use(text) {
            return self.builtin_use(ctx, text);
        }
        if let Some(r) = self.sys_prepare_meta(ctx, text) {
            let (sel, t, cols) = match r {
                Ok(x) => x,
                Err(reply) => return reply,
            };
            let filter: Option<Vec<String>> = if sel.keyspace_filter { ctx.params().and_then(|p| p.values.first()).and_then(systables::decode_text_list) } else { None };
            let (rows, splits) = {
                let st = self.lock();
                let views = Self::views(&st);
                let rows = systables::rows_of(&t, ctx.node, &views, &st.keyspaces, &self.inner.cluster_name, filter.as_deref());
                (systables::project(&sel, rows), st.sys_splits.get(&format!("{}.{}", t.keyspace, t.table)).cloned())
            };
            return match paginate(rows, splits.as_deref(), ctx.params()) {
                Ok((page, next)) => Response::rows_paged(cols, page, next).into(),
                Err(e) => self.fallback(ctx, &e),
            };
        }
        let script = self.lock().scripts.iter().find(|s| s.matches(ctx.node, text)).cloned();
        match script {
            Some(s) => (s.reply)(ctx),
            None => self.fallback(ctx, &format!("unscripted statement: {text:?}")),
        }
    }

    fn builtin_use(&self, _ctx: &ReqCtx, text: &str) -> Reply {
        let arg = text.trim()[4..].trim().trim_end_matches(';').trim();
        let name = if arg.len() >= 2 && arg.starts_with('"') && arg.ends_with('"') { arg[1..arg.len() - 1].to_string() } else { arg.to_ascii_lowercase() };
        let st = self.lock();
        let plausible = !name.is_empty() && name.chars().all(|c| c.is_ascii_alphanumeric() || c == '_');
        if (st.accept_any_keyspace && plausible) || st.keyspaces.iter().any(|k| k.name == name) {
            Response::SetKeyspace(name).into()
        } else {
            Reply::error(ErrorBody::invalid(&format!("Keyspace '{name}' does not exist")))
        }
    }
}
