//! E-MOCK: in-process scripted CQL v4 nodes on loopback with explorer-controlled gates (DESIGN.md 1.2, Appendix A).
