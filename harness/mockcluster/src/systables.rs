//! The system tables a session reads while coming up and refreshing metadata (DESIGN.md Appendix A).
//! Each table is a list of (column name, type) plus a row generator producing name -> cell; a SELECT
//! is answered by parsing its select list, so any column subset / order the driver asks for works.

use crate::wire::{Cell, ColSpec, ColType, Val, col, val};
use crate::{KeyspaceSpec, NodeView};
use std::collections::BTreeMap;

pub struct SysTable {
    pub keyspace: &'static str,
    pub table: &'static str,
    pub cols: Vec<(&'static str, ColType)>,
    /// only served by Scylla nodes (a Cassandra node answers Invalid: unconfigured table)
    pub scylla_only: bool,
}

fn text() -> ColType {
    ColType::Text
}

pub fn tables() -> Vec<SysTable> {
    vec![
        SysTable {
            keyspace: "system",
            table: "peers",
            cols: vec![
                ("peer", ColType::Inet),
                ("host_id", ColType::Uuid),
                ("rpc_address", ColType::Inet),
                ("data_center", text()),
                ("rack", text()),
                ("tokens", ColType::Set(Box::new(text()))),
                ("schema_version", ColType::Uuid),
                ("release_version", text()),
            ],
            scylla_only: false,
        },
        SysTable {
            keyspace: "system",
            table: "local",
            cols: vec![
                ("key", text()),
                ("host_id", ColType::Uuid),
                ("rpc_address", ColType::Inet),
                ("data_center", text()),
                ("rack", text()),
                ("tokens", ColType::Set(Box::new(text()))),
                ("cluster_name", text()),
                ("schema_version", ColType::Uuid),
                ("release_version", text()),
                ("partitioner", text()),
            ],
            scylla_only: false,
        },
        SysTable {
            keyspace: "system_schema",
            table: "keyspaces",
            cols: vec![("keyspace_name", text()), ("replication", ColType::Map(Box::new(text()), Box::new(text()))), ("durable_writes", ColType::Boolean)],
            scylla_only: false,
        },
        SysTable { keyspace: "system_schema", table: "tables", cols: vec![("keyspace_name", text()), ("table_name", text())], scylla_only: false },
        SysTable {
            keyspace: "system_schema",
            table: "views",
            cols: vec![("keyspace_name", text()), ("view_name", text()), ("base_table_name", text())],
            scylla_only: false,
        },
        SysTable {
            keyspace: "system_schema",
            table: "columns",
            cols: vec![
                ("keyspace_name", text()),
                ("table_name", text()),
                ("column_name", text()),
                ("kind", text()),
                ("position", ColType::Int),
                ("type", text()),
            ],
            scylla_only: false,
        },
        SysTable {
            keyspace: "system_schema",
            table: "types",
            cols: vec![
                ("keyspace_name", text()),
                ("type_name", text()),
                ("field_names", ColType::List(Box::new(text()))),
                ("field_types", ColType::List(Box::new(text()))),
            ],
            scylla_only: false,
        },
        SysTable {
            keyspace: "system_schema",
            table: "scylla_tables",
            cols: vec![("keyspace_name", text()), ("table_name", text()), ("partitioner", text())],
            scylla_only: true,
        },
        SysTable {
            keyspace: "system_schema",
            table: "scylla_keyspaces",
            cols: vec![("keyspace_name", text()), ("initial_tablets", ColType::Int)],
            scylla_only: true,
        },
    ]
}

/// A parsed metadata SELECT.
#[derive(Clone, Debug, PartialEq, Eq)]
pub struct SysSelect {
    pub keyspace: String,
    pub table: String,
    pub columns: Vec<String>,
    /// ` where keyspace_name in ?` present: one bind marker of type list<text>
    pub keyspace_filter: bool,
}

/// Recognise `SELECT <cols> FROM system[_schema].<table> [WHERE key='local'] [where keyspace_name in ?] [USING TIMEOUT <n>ms]`.
pub fn parse_select(text: &str) -> Option<SysSelect> {
    let t = text.trim();
    if t.len() < 7 || !t[..7].eq_ignore_ascii_case("SELECT ") {
        return None;
    }
    let rest = &t[7..];
    let upper = rest.to_ascii_uppercase();
    let from = upper.find(" FROM ")?;
    let columns: Vec<String> = rest[..from].split(',').map(|c| c.trim().to_string()).collect();
    let after = rest[from + 6..].trim_start();
    let end = after.find(|c: char| c.is_whitespace()).unwrap_or(after.len());
    let qualified = &after[..end];
    let (ks, table) = qualified.split_once('.')?;
    if ks != "system" && ks != "system_schema" {
        return None;
    }
    let tail = after[end..].to_ascii_lowercase();
    Some(SysSelect { keyspace: ks.to_string(), table: table.to_string(), columns, keyspace_filter: tail.contains("keyspace_name in ?") })
}

pub fn find_table(sel: &SysSelect) -> Option<SysTable> {
    tables().into_iter().find(|t| t.keyspace == sel.keyspace && t.table == sel.table)
}

/// Column specs of the select list; Err(name) for a column the table does not have.
pub fn select_cols(sel: &SysSelect, t: &SysTable) -> Result<Vec<ColSpec>, String> {
    sel.columns
        .iter()
        .map(|c| t.cols.iter().find(|(n, _)| n == c).map(|(n, ty)| col(t.keyspace, t.table, n, ty.clone())).ok_or_else(|| c.clone()))
        .collect()
}

fn node_row(n: &NodeView, local: bool, cluster_name: &str) -> BTreeMap<&'static str, Cell> {
    let mut m: BTreeMap<&'static str, Cell> = BTreeMap::new();
    let toks: Vec<String> = n.tokens.iter().map(|t| t.to_string()).collect();
    m.insert("host_id", if n.null_host_id { None } else { val::uuid(n.host_id) });
    m.insert("rpc_address", val::inet(n.ip.into()));
    m.insert("peer", val::inet(n.ip.into()));
    m.insert("data_center", val::text(&n.dc));
    m.insert("rack", val::text(&n.rack));
    m.insert("tokens", val::set_text(&toks));
    m.insert("schema_version", val::uuid(uuid::Uuid::from_u128(0x5c4e_0000_0000_4000_8000_0000_0000_0001)));
    m.insert("release_version", val::text("4.0.0"));
    if local {
        m.insert("key", val::text("local"));
        m.insert("cluster_name", val::text(cluster_name));
        m.insert("partitioner", val::text("org.apache.cassandra.dht.Murmur3Partitioner"));
    }
    m
}

/// list<text> bind value -> strings
pub fn decode_text_list(v: &Val) -> Option<Vec<String>> {
    let b = v.as_bytes()?;
    let mut r = crate::wire::Reader::new(b);
    let n = r.int().ok()?;
    let mut out = Vec::new();
    for _ in 0..n {
        let item = r.bytes().ok()??;
        out.push(String::from_utf8(item).ok()?);
    }
    Some(out)
}

/// All rows of a system table as seen from node `me` (rows as name -> cell maps).
pub fn rows_of(
    t: &SysTable,
    me: usize,
    nodes: &[NodeView],
    keyspaces: &[KeyspaceSpec],
    cluster_name: &str,
    ks_filter: Option<&[String]>,
) -> Vec<BTreeMap<&'static str, Cell>> {
    let keep = |name: &str| ks_filter.map(|f| f.iter().any(|k| k == name)).unwrap_or(true);
    let mut out = Vec::new();
    match (t.keyspace, t.table) {
        ("system", "peers") => {
            for n in nodes.iter().filter(|n| n.index != me && n.in_ring) {
                out.push(node_row(n, false, cluster_name));
            }
        }
        ("system", "local") => {
            if let Some(n) = nodes.iter().find(|n| n.index == me) {
                out.push(node_row(n, true, cluster_name));
            }
        }
        ("system_schema", "keyspaces") => {
            for k in keyspaces.iter().filter(|k| keep(&k.name)) {
                let mut m = BTreeMap::new();
                m.insert("keyspace_name", val::text(&k.name));
                m.insert("replication", val::map_text_text(&k.replication));
                m.insert("durable_writes", val::boolean(k.durable_writes));
                out.push(m);
            }
        }
        ("system_schema", "tables") | ("system_schema", "scylla_tables") => {
            for k in keyspaces.iter().filter(|k| keep(&k.name)) {
                for tb in &k.tables {
                    let mut m = BTreeMap::new();
                    m.insert("keyspace_name", val::text(&k.name));
                    m.insert("table_name", val::text(&tb.name));
                    m.insert("partitioner", tb.partitioner.as_deref().map(|p| p.as_bytes().to_vec()));
                    out.push(m);
                }
            }
        }
        ("system_schema", "columns") => {
            for k in keyspaces.iter().filter(|k| keep(&k.name)) {
                for tb in &k.tables {
                    for c in &tb.columns {
                        let mut m = BTreeMap::new();
                        m.insert("keyspace_name", val::text(&k.name));
                        m.insert("table_name", val::text(&tb.name));
                        m.insert("column_name", val::text(&c.name));
                        m.insert("kind", val::text(&c.kind));
                        m.insert("position", val::int(c.position));
                        m.insert("type", val::text(&c.typ));
                        out.push(m);
                    }
                }
            }
        }
        ("system_schema", "scylla_keyspaces") => {
            for k in keyspaces.iter().filter(|k| keep(&k.name)) {
                let mut m = BTreeMap::new();
                m.insert("keyspace_name", val::text(&k.name));
                m.insert("initial_tablets", k.initial_tablets.map(|v| v.to_be_bytes().to_vec()));
                out.push(m);
            }
        }
        // views, types: the mock has none
        _ => {}
    }
    out
}

pub fn project(sel: &SysSelect, rows: Vec<BTreeMap<&'static str, Cell>>) -> Vec<Vec<Cell>> {
    rows.into_iter().map(|m| sel.columns.iter().map(|c| m.get(c.as_str()).cloned().unwrap_or(None)).collect()).collect()
}

#[cfg(test)]
mod tests {
    use super::*;
    #[test]
    fn parse() {
        let s = parse_select("SELECT host_id, rpc_address, data_center, rack, tokens, cluster_name FROM system.local WHERE key='local' USING TIMEOUT 2000ms").unwrap();
        assert_eq!(s.table, "local");
        assert_eq!(s.columns.len(), 6);
        assert!(!s.keyspace_filter);
        let s = parse_select("SELECT keyspace_name, table_name FROM system_schema.tables where keyspace_name in ?").unwrap();
        assert!(s.keyspace_filter);
        assert!(parse_select("SELECT a FROM ks.t").is_none());
    }
}
