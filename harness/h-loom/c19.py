#!/usr/bin/env python3
"""C19 leg loom (E-LOOM) as a `kind: script` leg of ./vf.

  c19.py --tier quick|thorough --seed N --out <part.json>     derive + (incremental) build + run
  c19.py --replay <replay.json>                               same, re-running one recorded model
  c19.py --setup                                              derive + build only (used by `vf setup`)

Steps: (1) derive.py writes <harness>/h-loom/src/c19/mchan.rs from $VERIF_REPO (default /repo); a rewrite that
does not apply is exit 2; (2) cargo build --offline --profile verif in the crate's own target dir
(/verif/.target/loom, or <alt target>/loom for `vf check --repo`); (3) exec the harness binary, which
writes the evidence part itself through vcore::Report and follows the 0/1/2 exit protocol.
"""
import os, subprocess, sys

HERE = os.path.dirname(os.path.abspath(__file__))
ROOT = os.environ.get("VERIF_ROOT") or os.path.dirname(os.path.dirname(HERE))


def fail(msg, tail=""):
    print("MACHINERY-ERROR: C19 loom leg: %s" % msg)
    sys.stderr.write("MACHINERY-ERROR: C19 loom leg: %s\n%s\n" % (msg, tail))
    sys.exit(2)


def main():
    repo = os.environ.get("VERIF_REPO") or "/repo"
    harness = os.environ.get("VERIF_HARNESS") or os.path.dirname(HERE)
    crate = os.path.join(harness, "h-loom")
    main_harness = os.path.realpath(harness) == os.path.realpath(os.path.dirname(HERE))
    if main_harness and os.path.realpath(repo) == "/repo":
        target = os.path.join(ROOT, ".target", "loom")
    elif os.environ.get("VERIF_TARGET") and not main_harness:
        target = os.path.join(os.environ["VERIF_TARGET"], "loom")          # vf --repo: alt target dir, cleaned with it
    else:
        tag = "".join(c if c.isalnum() else "_" for c in os.path.realpath(repo)).strip("_")
        target = os.path.join(ROOT, ".target", "alt-" + tag, "loom")
        # a derived file in the main harness tree must never come from another repository
        crate_alt = "/tmp/vf-alt-%s-h-loom19" % tag
        subprocess.run(["rm", "-rf", crate_alt])
        subprocess.run(["cp", "-r", crate, crate_alt], check=True)
        txt = open(os.path.join(crate_alt, "Cargo.toml")).read().replace('path = "../vcore"', 'path = "%s/vcore"' % harness)
        open(os.path.join(crate_alt, "Cargo.toml"), "w").write(txt)
        crate = crate_alt

    p = subprocess.run([sys.executable, os.path.join(HERE, "derive_mc.py"), repo, os.path.join(crate, "src", "c19", "mchan.rs")], stdout=subprocess.PIPE, stderr=subprocess.PIPE, text=True)
    if p.returncode != 0:
        sys.stdout.write(p.stdout)
        sys.stderr.write(p.stderr)
        sys.exit(2)

    if not (main_harness and os.path.realpath(repo) == "/repo"):
        # An alternate harness copy is re-created from the main tree (mtimes preserved) on every `vf --repo`
        # run while its target dir persists: without a fresh mtime cargo would keep a binary built from an
        # earlier (differently derived) mchan.rs. Found when two seeded changes were confirmed back to back.
        os.utime(os.path.join(crate, "src", "c19", "mchan.rs"), None)

    env = dict(os.environ)
    env["CARGO_NET_OFFLINE"] = "true"
    env["CARGO_TARGET_DIR"] = target
    for k in ("RUSTFLAGS", "RUSTC_WRAPPER", "CARGO_ENCODED_RUSTFLAGS", "CARGO_BUILD_RUSTFLAGS"):
        env.pop(k, None)
    b = subprocess.run(["cargo", "build", "--offline", "--locked", "--profile", "verif", "--bin", "c19loom"], cwd=crate, env=env, stdout=subprocess.PIPE, stderr=subprocess.STDOUT, text=True)
    if b.returncode != 0:
        fail("cargo build of the loom harness failed (derived source does not compile?)", "\n".join(b.stdout.splitlines()[-25:]))
    if "--setup" in sys.argv[1:]:
        print("C19 loom harness built (%s)" % p.stdout.strip())
        return 0
    exe = os.path.join(target, "verif", "c19loom")
    os.execve(exe, [exe] + sys.argv[1:], env)


if __name__ == "__main__":
    sys.exit(main())
