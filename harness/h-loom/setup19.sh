#!/bin/sh
# `vf setup` hook: derive + build the C19 loom harness so the first `vf check C19` is incremental.
exec python3 "$(dirname "$0")/c19.py" --setup
