//! Scripted clock for the derived timestamp generator, plus the per-execution observation log.
//!
//! The clock is a script indexed by *global call order*: the k-th `now()` of an execution (whichever
//! thread makes it) applies symbol k of the script; reads beyond the script stall. loom runs all
//! model threads as coroutines of one OS thread, so an OS thread-local is shared by the model's
//! threads and private to the explorer worker that runs this model.

use std::cell::RefCell;
use std::time::{Duration, SystemTime, UNIX_EPOCH};

pub const STALL: u8 = 0; // same reading as before
pub const PLUS1: u8 = 1; // +1 us
pub const MINUS3: u8 = 2; // clock stepped back 3 us
pub const BEFORE_EPOCH: u8 = 3; // this one reading is before 1970 (duration_since fails); clock itself unchanged
pub const FAR_FUTURE: u8 = 4; // this one reading is ~31 years ahead; clock itself unchanged (later readings are far behind `last`)
pub const ALPHABET: usize = 5;
pub const NAMES: [&str; ALPHABET] = ["stall", "+1us", "-3us", "before-epoch", "far-future"];

/// microseconds since the epoch at the start of every execution
pub const T0: i64 = 1_700_000_000_000_000;
pub const FAR: i64 = 1_000_000_000_000_000;

#[derive(Clone, Debug, PartialEq, Eq, Hash)]
pub enum Ev {
    /// k-th clock read: symbol applied, reading in us since the epoch (None = before the epoch)
    Read(u8, Option<i64>),
    /// model thread `tid` got `value` from next_timestamp()
    Ret(u8, i64),
}

#[derive(Default)]
pub struct State {
    script: Vec<u8>,
    idx: usize,
    t: i64,
    pub log: Vec<Ev>,
}

thread_local! {
    static ST: RefCell<State> = RefCell::new(State::default());
}

/// Start of one execution.
pub fn begin(script: &[u8]) {
    ST.with(|s| {
        let mut s = s.borrow_mut();
        s.script.clear();
        s.script.extend_from_slice(script);
        s.idx = 0;
        s.t = T0;
        s.log.clear();
    })
}

/// End of one execution: the observation log (clock reads and returned values in global order).
pub fn end() -> Vec<Ev> {
    ST.with(|s| std::mem::take(&mut s.borrow_mut().log))
}

pub fn returned(tid: u8, v: i64) {
    ST.with(|s| s.borrow_mut().log.push(Ev::Ret(tid, v)))
}

/// The replacement for `SystemTime::now()` in the derived source.
pub fn now() -> SystemTime {
    ST.with(|s| {
        let mut s = s.borrow_mut();
        let sym = s.script.get(s.idx).copied().unwrap_or(STALL);
        s.idx += 1;
        let reading = match sym {
            STALL => Some(s.t),
            PLUS1 => {
                s.t += 1;
                Some(s.t)
            }
            MINUS3 => {
                s.t -= 3;
                Some(s.t)
            }
            BEFORE_EPOCH => None,
            FAR_FUTURE => Some(s.t + FAR),
            _ => unreachable!("bad clock symbol"),
        };
        s.log.push(Ev::Read(sym, reading));
        match reading {
            Some(us) => UNIX_EPOCH + Duration::from_micros(us as u64),
            None => UNIX_EPOCH - Duration::from_secs(1),
        }
    })
}
