//! C18 leg A (E-LOOM): the repository's `MonotonicTimestampGenerator` (textually derived copy,
//! see derive.py) under loom 0.7.2, driven by a scripted clock.
//!
//! For every clock script in the tier's set, loom enumerates every interleaving (preemption bound 3)
//! of the atomic load / compare-exchange loop and of the warning mutex for
//!   shape 2x2: two threads x two calls,     shape 3x1: three threads x one call,
//! then a final call on the joining thread. Oracle per execution: all returned values pairwise
//! distinct; each thread's own sequence strictly increasing; the final call (made after every
//! other call returned) is above every earlier value.
mod clock;
mod tsgen;

use clock::Ev;
use serde_json::{Value, json};
use std::cell::RefCell;
use std::collections::HashSet;
use std::hash::{Hash, Hasher};
use std::sync::Arc;
use std::time::Duration;
use tsgen::{MonotonicTimestampGenerator, TimestampGenerator};
use vcore::Report;

const PREEMPTION_BOUND: usize = 3;
/// preemption bound of the models run next by this process (0 = unbounded)
static BOUND: std::sync::atomic::AtomicUsize = std::sync::atomic::AtomicUsize::new(PREEMPTION_BOUND);
/// 0: models build the generator and spawn at once; 1 / 2: the joining thread first takes one timestamp from `new()`, then
/// reconfigures that same value with with_warning_times(1 s, 0 s) / without_warnings() and only then shares it
static PRELUDE: std::sync::atomic::AtomicU8 = std::sync::atomic::AtomicU8::new(0);
fn prelude() -> u8 {
    PRELUDE.load(std::sync::atomic::Ordering::Relaxed)
}
fn bound() -> usize {
    BOUND.load(std::sync::atomic::Ordering::Relaxed)
}
const SCRIPT_LEN: usize = 6;

#[derive(Clone, Copy, Debug, PartialEq, Eq)]
enum Cfg {
    /// `MonotonicTimestampGenerator::new()`: warnings on, 1 s threshold, 1 s interval
    Default,
    /// `.with_warning_times(1 s, 0 s)`: every skew above the threshold takes the warn branch
    WarnAlways,
    /// `.without_warnings()`
    NoWarn,
}
impl Cfg {
    fn name(self) -> &'static str {
        match self {
            Cfg::Default => "default",
            Cfg::WarnAlways => "warn-always",
            Cfg::NoWarn => "no-warnings",
        }
    }
    fn parse(s: &str) -> Cfg {
        match s {
            "default" => Cfg::Default,
            "warn-always" => Cfg::WarnAlways,
            "no-warnings" => Cfg::NoWarn,
            _ => vcore::machinery_error("bad cfg in replay case"),
        }
    }
    fn make(self) -> MonotonicTimestampGenerator {
        match self {
            Cfg::Default => MonotonicTimestampGenerator::new(),
            Cfg::WarnAlways => MonotonicTimestampGenerator::new().with_warning_times(Duration::from_secs(1), Duration::from_secs(0)),
            Cfg::NoWarn => MonotonicTimestampGenerator::new().without_warnings(),
        }
    }
}

#[derive(Clone, Debug)]
struct Viol {
    key: &'static str,
    what: String,
    execution: u64,
    log: Vec<Ev>,
}

#[derive(Default)]
struct ModelOut {
    executions: u64,
    /// order-sensitive digest of every execution's observation log (determinism audit)
    digest: u64,
    outcomes: HashSet<Vec<i64>>,
    outcomes_with_retry: HashSet<Vec<i64>>,
    retry_execs: u64,
    bump_execs: u64,
    max_reads: u64,
    first_retry_log: Option<Vec<Ev>>,
    first_log: Option<Vec<Ev>>,
    viols: Vec<Viol>,
    panic: Option<String>,
}

thread_local! {
    static ACC: RefCell<ModelOut> = RefCell::new(ModelOut::default());
}

fn h64<T: Hash>(t: &T, seed: u64) -> u64 {
    let mut h = std::collections::hash_map::DefaultHasher::new();
    seed.hash(&mut h);
    t.hash(&mut h);
    h.finish()
}

fn oracle(vals: &[Vec<i64>], fin: i64) -> Option<(&'static str, String)> {
    for (tid, v) in vals.iter().enumerate() {
        if let Some(w) = v.windows(2).find(|w| w[0] >= w[1]) {
            return Some(("thread-order", format!("thread {tid} got {} and then {}: its own sequence is not strictly increasing", w[0], w[1])));
        }
    }
    let mut all: Vec<(i64, usize)> = vals.iter().enumerate().flat_map(|(t, v)| v.iter().map(move |x| (*x, t))).collect();
    all.sort();
    if let Some(w) = all.windows(2).find(|w| w[0].0 == w[1].0) {
        return Some(("duplicate", format!("timestamp {} handed out twice (threads {} and {})", w[0].0, w[0].1, w[1].1)));
    }
    let max = all.last().map(|x| x.0).unwrap_or(i64::MIN);
    if fin <= max {
        return Some(("final-not-above-max", format!("a call made after all others returned got {fin}, not above the earlier maximum {max}")));
    }
    None
}

/// One execution of the model body (runs inside loom).
fn body(script: [u8; SCRIPT_LEN], threads: u8, calls: u8, cfg: Cfg) {
    clock::begin(&script);
    let pre = prelude();
    let (g, v0) = if pre == 0 {
        (cfg.make(), None)
    } else {
        let g = MonotonicTimestampGenerator::new();
        let v0 = g.next_timestamp();
        clock::returned(250, v0);
        let g = if pre == 1 { g.with_warning_times(Duration::from_secs(1), Duration::from_secs(0)) } else { g.without_warnings() };
        (g, Some(v0))
    };
    let g = Arc::new(g);
    let hs: Vec<_> = (0..threads)
        .map(|tid| {
            let g = g.clone();
            loom::thread::spawn(move || {
                let mut v = Vec::with_capacity(calls as usize);
                for _ in 0..calls {
                    let x = g.next_timestamp();
                    clock::returned(tid, x);
                    v.push(x);
                }
                v
            })
        })
        .collect();
    let vals: Vec<Vec<i64>> = hs.into_iter().map(|h| h.join().unwrap()).collect();
    let fin = g.next_timestamp();
    clock::returned(threads, fin);
    let log = clock::end();
    let mut complaint = oracle(&vals, fin);
    if let Some(v0) = v0 {
        if let Some(x) = vals.iter().flatten().chain(std::iter::once(&fin)).find(|x| **x <= v0) {
            complaint = Some(("reconfigured-generator-goes-back", format!("the generator handed out {v0}, was reconfigured (same value moved through the builder method) and then handed out {x}")));
        }
    }
    ACC.with(|a| {
        let mut a = a.borrow_mut();
        a.executions += 1;
        a.digest = h64(&log, a.digest);
        let reads = log.iter().filter(|e| matches!(e, Ev::Read(..))).count() as u64;
        a.max_reads = a.max_reads.max(reads);
        let retry = reads > (threads as u64) * (calls as u64) + 1 + (pre != 0) as u64;
        // a returned value that no clock read produced came from the `last + 1` path
        let bumped = log.iter().any(|e| matches!(e, Ev::Ret(t, v) if *t < threads && !log.iter().any(|r| matches!(r, Ev::Read(_, Some(x)) if x == v))));
        if a.first_log.is_none() {
            a.first_log = Some(log.clone());
        }
        let mut outcome: Vec<i64> = vals.iter().flatten().copied().collect();
        outcome.push(fin);
        if retry {
            a.retry_execs += 1;
            a.outcomes_with_retry.insert(outcome.clone());
            if a.first_retry_log.is_none() {
                a.first_retry_log = Some(log.clone());
            }
        }
        if bumped {
            a.bump_execs += 1;
        }
        a.outcomes.insert(outcome);
        if let Some((key, what)) = complaint {
            if !a.viols.iter().any(|v| v.key == key) {
                let execution = a.executions;
                a.viols.push(Viol { key, what, execution, log });
            }
        }
    });
}

fn run_model(script: [u8; SCRIPT_LEN], threads: u8, calls: u8, cfg: Cfg) -> ModelOut {
    ACC.with(|a| *a.borrow_mut() = ModelOut::default());
    let mut b = loom::model::Builder::new();
    b.preemption_bound = match bound() {
        0 => None,
        n => Some(n),
    };
    b.max_branches = 10_000;
    b.max_duration = None;
    b.max_permutations = None;
    b.log = false;
    let r = vcore::catch(std::panic::AssertUnwindSafe(move || b.check(move || body(script, threads, calls, cfg))));
    let mut out = ACC.with(|a| std::mem::take(&mut *a.borrow_mut()));
    if let Err(p) = r {
        out.panic = Some(format!("{p} at {}", vcore::last_panic_location()));
    }
    out
}

fn script_of(mut idx: u64, len: usize) -> [u8; SCRIPT_LEN] {
    // digit 0 of the index is the *first* symbol; shorter scripts are padded with `stall`
    let mut s = [clock::STALL; SCRIPT_LEN];
    for d in s.iter_mut().take(len) {
        *d = (idx % clock::ALPHABET as u64) as u8;
        idx /= clock::ALPHABET as u64;
    }
    s
}

fn script_names(s: &[u8]) -> Vec<&'static str> {
    s.iter().map(|x| clock::NAMES[*x as usize]).collect()
}

fn log_json(log: &[Ev]) -> Value {
    Value::Array(
        log.iter()
            .map(|e| match e {
                Ev::Read(sym, Some(v)) => json!({"clock": clock::NAMES[*sym as usize], "reads_us": v}),
                Ev::Read(sym, None) => json!({"clock": clock::NAMES[*sym as usize], "reads_us": "before-epoch"}),
                Ev::Ret(t, v) => json!({"thread": t, "returned": v}),
            })
            .collect(),
    )
}

fn case_json(script: &[u8], threads: u8, calls: u8, cfg: Cfg) -> Value {
    json!({"script": script, "script_names": script_names(script), "threads": threads, "calls": calls, "cfg": cfg.name(), "preemption_bound": bound(), "prelude": prelude()})
}

#[derive(Default)]
struct Agg {
    models: u64,
    executions: u64,
    outcomes: u64,
    audited_models: u64,
    audited_execs: u64,
    min_execs: u64,
    max_execs: u64,
    samples: Vec<Value>,
    /// (sweep number, item index, key, what, case): the parent keeps the smallest per key
    viols: Vec<(u64, u64, String, String, Value)>,
}

/// Runs models on ONE OS thread (loom's coroutine stacks are mmap'd per model thread and execution;
/// several explorer threads in one address space serialise on the kernel's mm lock, so the parent
/// parallelises over worker *processes* instead).
struct Sweep {
    r: Report,
    agg: RefCell<Agg>,
}

impl Sweep {
    /// Run one model; `audit`: run it a second time and demand the identical execution set.
    fn one(&self, order: (u64, u64), script: [u8; SCRIPT_LEN], threads: u8, calls: u8, cfg: Cfg, audit: bool, tag: &str) {
        let r = &self.r;
        let mut a = self.agg.borrow_mut();
        let out = run_model(script, threads, calls, cfg);
        let case = case_json(&script, threads, calls, cfg);
        if let Some(p) = &out.panic {
            // a panic out of loom is either the code under test panicking (unwrap in the warning path,
            // arithmetic overflow) or loom's own deadlock / branch-bound report: both are reported, keyed apart
            if p.contains("/loom-") && !p.contains("deadlock") && !p.contains("exceeded") {
                vcore::machinery_error(&format!("loom failed internally on {case}: {p}"));
            }
            let key = if p.contains("deadlock") { "loom:deadlock" } else if p.contains("exceeded") { "no-progress" } else { "panic" };
            let what = format!("model {threads}x{calls} cfg={} script={:?} panicked after {} executions: {p}", cfg.name(), script_names(&script), out.executions);
            a.viols.push((order.0, order.1, key.to_string(), what, case.clone()));
            // the aborted execution was explored too (keeps a run in which every model aborts from looking vacuous)
            r.eval(1);
            r.transitions.fetch_add(1, std::sync::atomic::Ordering::Relaxed);
            r.states.fetch_add(1, std::sync::atomic::Ordering::Relaxed);
        }
        for v in &out.viols {
            let mut c = case.clone();
            c["execution"] = json!(v.execution);
            c["log"] = log_json(&v.log);
            let what = format!("{} [model {threads}x{calls}, cfg {}, clock script {:?}, loom execution #{}]", v.what, cfg.name(), script_names(&script), v.execution);
            a.viols.push((order.0, order.1, v.key.to_string(), what, c));
        }
        let mut audited = 0;
        if audit && out.panic.is_none() {
            let again = run_model(script, threads, calls, cfg);
            if again.executions != out.executions || again.digest != out.digest {
                vcore::machinery_error(&format!(
                    "determinism audit failed for {case}: {} executions digest {:x} vs {} executions digest {:x}",
                    out.executions, out.digest, again.executions, again.digest
                ));
            }
            audited = again.executions;
        }
        r.eval(out.executions);
        r.transitions.fetch_add(out.executions, std::sync::atomic::Ordering::Relaxed);
        r.states.fetch_add(out.outcomes.len() as u64, std::sync::atomic::Ordering::Relaxed);
        r.traces_validated.fetch_add(audited, std::sync::atomic::Ordering::Relaxed);
        r.nontrivial(out.outcomes_with_retry.len() as u64);
        r.counters.add(&format!("{tag}:models"), 1);
        r.counters.add(&format!("{tag}:executions"), out.executions);
        r.counters.add(&format!("{tag}:executions_with_cas_retry"), out.retry_execs);
        r.counters.add(&format!("{tag}:executions_with_last_plus_1_value"), out.bump_execs);
        r.counters.add(&format!("{tag}:distinct_outcomes"), out.outcomes.len() as u64);
        r.counters.max(&format!("{tag}:max_clock_reads_in_one_execution"), out.max_reads);
        a.models += 1;
        a.executions += out.executions;
        a.outcomes += out.outcomes.len() as u64;
        a.min_execs = if a.min_execs == 0 { out.executions } else { a.min_execs.min(out.executions) };
        a.max_execs = a.max_execs.max(out.executions);
        if audited > 0 {
            a.audited_models += 1;
            a.audited_execs += audited;
        }
        let busy = script.iter().filter(|s| **s != clock::STALL).count() >= 3;
        if a.samples.len() < 2 && (busy || a.samples.is_empty()) {
            let mut c = case;
            c["loom_executions"] = json!(out.executions);
            c["distinct_outcomes"] = json!(out.outcomes.len());
            match (&out.first_retry_log, &out.first_log) {
                (Some(l), _) => c["one_execution_with_a_failed_compare_exchange"] = log_json(l),
                (None, Some(l)) => c["first_execution"] = log_json(l),
                _ => {}
            }
            if busy || a.samples.is_empty() {
                if !busy {
                    a.samples.clear();
                }
                a.samples.push(c);
            }
        }
    }
}


// ------------------------------------------------------------------------------------------------
// Reconfiguration sub-leg: ONE generator value moved through the builder-style methods between calls.
// ------------------------------------------------------------------------------------------------
const OP_NEXT: u8 = 0;
const OP_WITH_TIMES: u8 = 1;
const OP_WITHOUT: u8 = 2;
const OP_NAMES: [&str; 3] = ["next_timestamp()", "with_warning_times(1s, 0s)", "without_warnings()"];

thread_local! {
    static RECONF: RefCell<Option<(Vec<i64>, Vec<Ev>)>> = const { RefCell::new(None) };
}

/// Runs `ops` on one generator (single model thread: loom has exactly one execution) with the clock `script`
/// (one symbol per next_timestamp call). Returns the values handed out, the log, and a panic text if any.
fn run_reconf(ops: &[u8], script: &[u8]) -> (Vec<i64>, Vec<Ev>, Option<String>) {
    RECONF.with(|c| *c.borrow_mut() = None);
    let (ops_v, script_v) = (ops.to_vec(), script.to_vec());
    let r = vcore::catch(std::panic::AssertUnwindSafe(move || {
        loom::model(move || {
            clock::begin(&script_v);
            let mut g = MonotonicTimestampGenerator::new();
            let mut vals = Vec::new();
            for op in &ops_v {
                match *op {
                    OP_NEXT => {
                        let x = g.next_timestamp();
                        clock::returned(0, x);
                        vals.push(x);
                    }
                    OP_WITH_TIMES => g = g.with_warning_times(Duration::from_secs(1), Duration::from_secs(0)),
                    _ => g = g.without_warnings(),
                }
            }
            let log = clock::end();
            RECONF.with(|c| *c.borrow_mut() = Some((vals, log)));
        })
    }));
    let (vals, log) = RECONF.with(|c| c.borrow_mut().take()).unwrap_or_default();
    (vals, log, r.err().map(|p| format!("{p} at {}", vcore::last_panic_location())))
}

fn reconf_case(ops: &[u8], script: &[u8]) -> Value {
    json!({"kind": "reconfigure", "ops": ops, "op_names": ops.iter().map(|o| OP_NAMES[*o as usize]).collect::<Vec<_>>(), "script": script, "script_names": script_names(script)})
}

/// Oracle: every value handed out is strictly greater than every earlier one.
fn reconf_complaint(vals: &[i64]) -> Option<String> {
    let mut max = i64::MIN;
    for (i, v) in vals.iter().enumerate() {
        if i > 0 && *v <= max {
            return Some(format!("call #{} returned {v}, not above the {max} handed out earlier by the same generator value", i + 1));
        }
        max = max.max(*v);
    }
    None
}

impl Sweep {
    /// All op sequences of length 1..=max_len over {next, with_warning_times, without_warnings} x all clock scripts
    /// (one symbol per next call) over the full 5-symbol alphabet; this worker's share.
    fn reconf(&self, max_len: usize, k: u64, n: u64) {
        let r = &self.r;
        let mut a = self.agg.borrow_mut();
        let mut counter = 0u64;
        for len in 1..=max_len {
            for oi in 0..3u64.pow(len as u32) {
                let mut x = oi;
                let ops: Vec<u8> = (0..len).map(|_| { let d = (x % 3) as u8; x /= 3; d }).collect();
                let nexts = ops.iter().filter(|o| **o == OP_NEXT).count();
                if nexts == 0 {
                    continue;
                }
                // a reconfiguration between two calls is what makes the sequence non-trivial
                let first = ops.iter().position(|o| *o == OP_NEXT).unwrap();
                let last = ops.iter().rposition(|o| *o == OP_NEXT).unwrap();
                let between = ops[first..last].iter().any(|o| *o != OP_NEXT);
                for si in 0..pow(nexts) {
                    counter += 1;
                    if counter % n != k {
                        continue;
                    }
                    let script: Vec<u8> = { let mut y = si; (0..nexts).map(|_| { let d = (y % clock::ALPHABET as u64) as u8; y /= clock::ALPHABET as u64; d }).collect() };
                    let (vals, log, panic) = run_reconf(&ops, &script);
                    r.eval(1);
                    r.transitions.fetch_add(1, std::sync::atomic::Ordering::Relaxed);
                    r.states.fetch_add(1, std::sync::atomic::Ordering::Relaxed);
                    r.counters.add("reconf:models", 1);
                    a.models += 1;
                    a.executions += 1;
                    a.outcomes += 2; // not part of the one-outcome-per-model vacuity warning (single-threaded by construction)
                    if between {
                        r.nontrivial(1);
                        r.counters.add("reconf:sequences_with_a_reconfiguration_between_two_calls", 1);
                        if vals.windows(2).any(|w| w[1] == w[0] + 1) {
                            r.counters.add("reconf:...and_a_last_plus_1_value", 1);
                        }
                    }
                    let order = ((len as u64) << 40) | (oi << 20) | si;
                    if let Some(p) = panic {
                        a.viols.push((7, order, "panic".into(), format!("reconfiguration sequence {:?} clock {:?} panicked: {p}", ops.iter().map(|o| OP_NAMES[*o as usize]).collect::<Vec<_>>(), script_names(&script)), reconf_case(&ops, &script)));
                    } else if let Some(w) = reconf_complaint(&vals) {
                        let mut c = reconf_case(&ops, &script);
                        c["log"] = log_json(&log);
                        a.viols.push((7, order, "reconfigured-generator-goes-back".into(), format!("{w} [ops {:?}, clock {:?}, values {:?}]", ops.iter().map(|o| OP_NAMES[*o as usize]).collect::<Vec<_>>(), script_names(&script), vals), c));
                    }
                }
            }
        }
    }
}

struct Plan {
    len_2x2: usize,
    len_3x1: usize,
    len_cfg: usize,
    sampled: u64,
    audit_every: u64,
    /// thorough extras: 2 threads x 3 calls; 2x2 with NO preemption bound (0 = sweep off)
    len_2x3: usize,
    len_unbounded: usize,
    /// reconfiguration sub-leg: max op-sequence length; script length of the 2-threads-after-reconfiguration loom models
    reconf_len: usize,
    len_reconf_mt: usize,
    /// thorough-only deepening (0 = off): 3 threads x 2 calls; 2x2 at preemption bound 5; 2x3 at bound 4
    len_3x2: usize,
    len_2x2_b5: usize,
    len_2x3_b4: usize,
}

fn plan(r: &Report) -> Plan {
    let q = |k: &str, quick: usize, thorough: usize| arg_usize(r, k, r.tier().pick(quick, thorough));
    Plan {
        len_2x2: q("--len-2x2", 5, SCRIPT_LEN),
        len_3x1: q("--len-3x1", 3, SCRIPT_LEN),
        len_cfg: q("--len-cfg", 3, 5),
        sampled: r.args.extra_value("--sampled").and_then(|s| s.parse().ok()).unwrap_or(r.tier().pick(200u64, 0u64)),
        audit_every: r.tier().pick(8u64, 64u64),
        len_2x3: q("--len-2x3", 0, SCRIPT_LEN),
        len_unbounded: q("--len-unbounded", 2, 5),
        reconf_len: r.args.extra_value("--reconf-len").and_then(|s| s.parse().ok()).unwrap_or(r.tier().pick(5usize, 7usize)),
        len_reconf_mt: q("--len-reconf-mt", 3, 4),
        len_3x2: q("--len-3x2", 0, 4),
        len_2x2_b5: q("--len-2x2-b5", 0, SCRIPT_LEN),
        len_2x3_b4: q("--len-2x3-b4", 0, 4),
    }
}

fn pow(n: usize) -> u64 {
    (clock::ALPHABET as u64).pow(n as u32)
}

/// Worker k of n: every item whose index is k mod n, on this one thread. Prints one JSON line.
fn worker(r: Report, k: u64, n: u64) -> ! {
    let p = plan(&r);
    let seed = r.args.seed;
    let sw = Sweep { r, agg: RefCell::new(Agg::default()) };
    let mine = |i: u64| i % n == k;
    // (1) 2 threads x 2 calls, default configuration: all scripts of the tier's length
    for i in (0..pow(p.len_2x2)).filter(|i| mine(*i)) {
        sw.one((1, i), script_of(i, p.len_2x2), 2, 2, Cfg::Default, i % p.audit_every == 0, "2x2");
    }
    // (2) 3 threads x 1 call; the warn branch is always taken when the skew exceeds the threshold
    for i in (0..pow(p.len_3x1)).filter(|i| mine(*i)) {
        sw.one((2, i), script_of(i, p.len_3x1), 3, 1, Cfg::WarnAlways, i % p.audit_every == 0, "3x1");
    }
    // (3) the other two configurations on 2x2
    for i in (0..2 * pow(p.len_cfg)).filter(|i| mine(*i)) {
        let cfg = if i % 2 == 0 { Cfg::WarnAlways } else { Cfg::NoWarn };
        sw.one((3, i), script_of(i / 2, p.len_cfg), 2, 2, cfg, (i / 2) % p.audit_every == 0, "2x2-cfg");
    }
    // (4) a seeded sample of full-length scripts (labelled sampled; not what coverage rests on)
    let mut rng = vcore::Rng::new(seed);
    for i in 0..p.sampled {
        let pick = rng.below(pow(SCRIPT_LEN));
        if mine(i) {
            sw.one((4, i), script_of(pick, SCRIPT_LEN), 2, 2, Cfg::Default, false, "2x2-sampled");
        }
    }
    // (5) 2 threads x 3 calls (six calls: every symbol of a length-6 script can be consumed without a retry)
    if p.len_2x3 > 0 {
        for i in (0..pow(p.len_2x3)).filter(|i| mine(*i)) {
            sw.one((5, i), script_of(i, p.len_2x3), 2, 3, Cfg::Default, i % p.audit_every == 0, "2x3");
        }
    }
    // (6) 2x2 with no preemption bound at all (every interleaving loom distinguishes)
    if p.len_unbounded > 0 {
        BOUND.store(0, std::sync::atomic::Ordering::Relaxed);
        for i in (0..pow(p.len_unbounded)).filter(|i| mine(*i)) {
            sw.one((6, i), script_of(i, p.len_unbounded), 2, 2, Cfg::Default, i % p.audit_every == 0, "2x2-unbounded");
        }
        BOUND.store(PREEMPTION_BOUND, std::sync::atomic::Ordering::Relaxed);
    }
    // (7) one generator value moved through with_warning_times / without_warnings between calls (single-threaded, exhaustive)
    sw.reconf(p.reconf_len, k, n);
    // (8) ... and shared by 2 threads x 1 call after one call + one reconfiguration on the joining thread
    if p.len_reconf_mt > 0 {
        for pre in [1u8, 2u8] {
            PRELUDE.store(pre, std::sync::atomic::Ordering::Relaxed);
            for i in (0..pow(p.len_reconf_mt)).filter(|i| mine(*i)) {
                sw.one((8, i * 2 + pre as u64), script_of(i, p.len_reconf_mt), 2, 1, Cfg::Default, i % p.audit_every == 0, "reconf-then-2x1");
            }
        }
        PRELUDE.store(0, std::sync::atomic::Ordering::Relaxed);
    }
    // (9)-(11) thorough-only deepening: more threads x calls, higher preemption bounds
    if p.len_3x2 > 0 {
        for i in (0..pow(p.len_3x2)).filter(|i| mine(*i)) {
            sw.one((9, i), script_of(i, p.len_3x2), 3, 2, Cfg::Default, false, "3x2");
        }
    }
    if p.len_2x2_b5 > 0 {
        BOUND.store(5, std::sync::atomic::Ordering::Relaxed);
        for i in (0..pow(p.len_2x2_b5)).filter(|i| mine(*i)) {
            sw.one((10, i), script_of(i, p.len_2x2_b5), 2, 2, Cfg::Default, i % p.audit_every == 0, "2x2-bound5");
        }
        BOUND.store(PREEMPTION_BOUND, std::sync::atomic::Ordering::Relaxed);
    }
    if p.len_2x3_b4 > 0 {
        BOUND.store(4, std::sync::atomic::Ordering::Relaxed);
        for i in (0..pow(p.len_2x3_b4)).filter(|i| mine(*i)) {
            sw.one((11, i), script_of(i, p.len_2x3_b4), 2, 3, Cfg::Default, false, "2x3-bound4");
        }
        BOUND.store(PREEMPTION_BOUND, std::sync::atomic::Ordering::Relaxed);
    }
    let a = sw.agg.into_inner();
    let r = sw.r;
    use std::sync::atomic::Ordering::Relaxed;
    let out = json!({
        "evaluations": r.evaluations.load(Relaxed), "nontrivial": r.distinct_nontrivial.load(Relaxed),
        "states": r.states.load(Relaxed), "transitions": r.transitions.load(Relaxed), "traces": r.traces_validated.load(Relaxed),
        "counters": r.counters.snapshot(),
        "models": a.models, "executions": a.executions, "outcomes": a.outcomes, "audited_models": a.audited_models,
        "audited_execs": a.audited_execs, "min_execs": a.min_execs, "max_execs": a.max_execs, "samples": a.samples,
        "viols": a.viols.iter().map(|(s, i, k, w, c)| json!([s, i, k, w, c])).collect::<Vec<_>>(),
    });
    println!("WORKER-RESULT {out}");
    std::process::exit(0)
}

fn replay(r: &Report, case: &Value) {
    if case["kind"].as_str() == Some("reconfigure") {
        let g = |k: &str| -> Vec<u8> { case[k].as_array().map(|a| a.iter().map(|x| x.as_u64().unwrap_or(0) as u8).collect()).unwrap_or_default() };
        let (ops, script) = (g("ops"), g("script"));
        println!("replaying {:?} with clock {:?} on one generator value", ops.iter().map(|o| OP_NAMES[(*o as usize).min(2)]).collect::<Vec<_>>(), script_names(&script));
        let (vals, log, panic) = run_reconf(&ops, &script);
        println!("  values handed out: {vals:?}");
        println!("  observation log: {}", log_json(&log));
        if let Some(p) = panic {
            r.violation("panic", &p, case.clone());
        } else if let Some(w) = reconf_complaint(&vals) {
            println!("  {w}");
            r.violation("reconfigured-generator-goes-back", &w, case.clone());
        }
        return;
    }
    let script: Vec<u8> = case["script"].as_array().map(|a| a.iter().map(|x| x.as_u64().unwrap_or(0) as u8).collect()).unwrap_or_default();
    if script.len() != SCRIPT_LEN || script.iter().any(|s| *s as usize >= clock::ALPHABET) {
        vcore::machinery_error("replay case has no valid script");
    }
    let mut s = [0u8; SCRIPT_LEN];
    s.copy_from_slice(&script);
    let threads = case["threads"].as_u64().unwrap_or(2) as u8;
    let calls = case["calls"].as_u64().unwrap_or(2) as u8;
    let cfg = Cfg::parse(case["cfg"].as_str().unwrap_or("default"));
    PRELUDE.store(case["prelude"].as_u64().unwrap_or(0) as u8, std::sync::atomic::Ordering::Relaxed);
    BOUND.store(case["preemption_bound"].as_u64().unwrap_or(PREEMPTION_BOUND as u64) as usize, std::sync::atomic::Ordering::Relaxed);
    println!("replaying loom model {threads}x{calls} cfg={} clock script {:?} (loom is deterministic: the recorded execution number recurs)", cfg.name(), script_names(&s));
    let out = run_model(s, threads, calls, cfg);
    println!("  {} loom executions, {} distinct outcomes", out.executions, out.outcomes.len());
    if let Some(p) = &out.panic {
        r.violation("panic", &format!("model panicked after {} executions: {p}", out.executions), case.clone());
        println!("  panic: {p}");
    }
    for v in &out.viols {
        r.violation(v.key, &v.what, case.clone());
        println!("  [{}] {} (loom execution #{}; recorded: #{})", v.key, v.what, v.execution, case["execution"]);
        println!("  observation log of the failing execution: {}", log_json(&v.log));
    }
}

fn main() {
    vcore::quiet_panics();
    let r = Report::new("C18", "loom", "model_checking", "E-LOOM");
    if let Some(case) = r.replay_case() {
        replay(&r, &case);
        r.finish_replay();
    }
    if let Some(w) = r.args.extra_value("--worker") {
        let (k, n) = w.split_once('/').and_then(|(k, n)| Some((k.parse().ok()?, n.parse().ok()?))).unwrap_or_else(|| vcore::machinery_error("bad --worker k/n"));
        worker(r, k, n);
    }
    let thorough = r.tier().is_thorough();
    let p = plan(&r);
    let n = r.args.jobs as u64;
    // fan out over worker processes, same arguments plus --worker k/n
    let base: Vec<String> = std::env::args().skip(1).collect();
    let results = vcore::par::map(n as usize, (0..n).collect::<Vec<u64>>(), |k| {
        let k = *k;
        let mut args: Vec<String> = base.clone();
        args.push("--worker".into());
        args.push(format!("{k}/{n}"));
        let a: Vec<&str> = args.iter().map(|s| s.as_str()).collect();
        vcore::sandbox::run_self(&a, b"", Duration::from_secs(3 * 3600))
    });
    let mut a = Agg::default();
    for (k, c) in results.iter().enumerate() {
        let so = String::from_utf8_lossy(&c.stdout);
        let line = so.lines().find_map(|l| l.strip_prefix("WORKER-RESULT "));
        let Some(line) = line.filter(|_| c.exit_code == Some(0)) else {
            let m = so.lines().find(|l| l.starts_with("MACHINERY-ERROR")).unwrap_or("");
            vcore::machinery_error(&format!("loom worker {k}/{n} failed: exit {:?} signal {:?} {m} {}", c.exit_code, c.signal, c.stderr_tail));
        };
        let v: Value = serde_json::from_str(line).unwrap_or_else(|e| vcore::machinery_error(&format!("worker output: {e}")));
        let g = |key: &str| v[key].as_u64().unwrap_or(0);
        use std::sync::atomic::Ordering::Relaxed;
        r.eval(g("evaluations"));
        r.nontrivial(g("nontrivial"));
        r.states.fetch_add(g("states"), Relaxed);
        r.transitions.fetch_add(g("transitions"), Relaxed);
        r.traces_validated.fetch_add(g("traces"), Relaxed);
        for (name, val) in v["counters"].as_object().into_iter().flatten() {
            if name.contains(":max_") {
                r.counters.max(name, val.as_u64().unwrap_or(0));
            } else {
                r.counters.add(name, val.as_u64().unwrap_or(0));
            }
        }
        a.models += g("models");
        a.executions += g("executions");
        a.outcomes += g("outcomes");
        a.audited_models += g("audited_models");
        a.audited_execs += g("audited_execs");
        a.min_execs = if a.min_execs == 0 { g("min_execs") } else if g("min_execs") > 0 { a.min_execs.min(g("min_execs")) } else { a.min_execs };
        a.max_execs = a.max_execs.max(g("max_execs"));
        for s in v["samples"].as_array().into_iter().flatten() {
            a.samples.push(s.clone());
        }
        for x in v["viols"].as_array().into_iter().flatten() {
            a.viols.push((x[0].as_u64().unwrap_or(0), x[1].as_u64().unwrap_or(0), x[2].as_str().unwrap_or("").to_string(), x[3].as_str().unwrap_or("").to_string(), x[4].clone()));
        }
    }
    // simplest first: sweep order, then script index
    a.viols.sort_by(|x, y| (x.0, x.1, &x.2).cmp(&(y.0, y.1, &y.2)));
    for (_, _, key, what, case) in &a.viols {
        r.violation(key, what, case.clone());
    }
    r.note("loom_models", json!(a.models));
    r.note("loom_executions", json!(a.executions));
    r.note("executions_per_model_min_max", json!([a.min_execs, a.max_execs]));
    r.note("clock_scripts", json!({"2x2 default cfg": pow(p.len_2x2), "3x1 warn-always": pow(p.len_3x1), "2x2 warn-always + no-warnings": 2 * pow(p.len_cfg), "2x2 sampled full-length": p.sampled, "2x3 default": if p.len_2x3 > 0 { pow(p.len_2x3) } else { 0 }, "2x2 unbounded preemptions": if p.len_unbounded > 0 { pow(p.len_unbounded) } else { 0 }, "one call + reconfiguration, then 2x1": 2 * pow(p.len_reconf_mt), "3x2 (bound 3)": if p.len_3x2 > 0 { pow(p.len_3x2) } else { 0 }, "2x2 bound 5": if p.len_2x2_b5 > 0 { pow(p.len_2x2_b5) } else { 0 }, "2x3 bound 4": if p.len_2x3_b4 > 0 { pow(p.len_2x3_b4) } else { 0 }}));
    r.note("script_length", json!({"2x2": p.len_2x2, "3x1": p.len_3x1, "2x2-cfg": p.len_cfg, "2x3": p.len_2x3, "2x2-unbounded": p.len_unbounded, "max": SCRIPT_LEN}));
    r.note("preemption_bound", json!({"default": PREEMPTION_BOUND, "sweep 2x2-unbounded": "none"}));
    r.note("worker_processes", json!(n));
    r.note("reconfiguration_subleg", json!({"max_ops": p.reconf_len, "ops": OP_NAMES, "clock": "every script over the 5 symbols, one symbol per next_timestamp call"}));
    r.note("determinism_audit", json!({"models_run_twice": a.audited_models, "executions_compared": a.audited_execs}));
    a.samples.sort_by_key(|s| (s["one_execution_with_a_failed_compare_exchange"].is_null(), s["script"].to_string()));
    for s in a.samples.iter().take(4) {
        r.sample(s.clone());
    }
    if a.outcomes <= a.models {
        println!("WARNING: one distinct outcome per model - the harness collided on nothing");
    }
    r.set_rule(
        "E-LOOM. transitions = loom executions (complete interleavings, preemption bound 3) summed over clock scripts x model shapes; \
         states = distinct (script, shape, returned-value vector) outcomes; traces_validated_against_impl = executions of models run a \
         second time whose full observation logs (clock reads and returned values in global order) matched the first run (determinism audit). \
         distinct_nontrivial = distinct outcomes of executions in which at least one compare-exchange failed and the call retried \
         (more clock reads than calls). Scripts: all words of the stated length over {stall,+1us,-3us,before-epoch,far-future}, later reads stall. \
         Reconfiguration sub-leg (counters reconf:*): every sequence of <= max_ops operations over {next_timestamp, with_warning_times, without_warnings} on ONE generator \
         value moved through the builder methods x every clock script (one symbol per call); single model thread, so one execution = one transition = one state each; \
         non-trivial = a reconfiguration lies between two calls. Oracle there: every value is above every earlier one.",
    );
    r.set_exhaustive(true);
    r.assume("loom explores sequentially consistent and C11-weak behaviours of the atomics it sees, up to preemption bound 3; the source under loom is a textual derivation (imports and clock only) of timestamp_generator.rs");
    r.assume("tokio::time::Instant and tracing::warn in the warning path are the real ones; whether the rate-limit interval has elapsed is wall-clock, covered by the warn-always / default / no-warnings configurations instead");
    if !thorough {
        r.assume("quick tier: 2x2 clock scripts of length 5 exhaustive (later reads stall); full-length-6 scripts are a seeded sample there (labelled sampled) and exhaustive in the thorough tier");
    }
    r.finish();
}

fn arg_usize(r: &Report, key: &str, default: usize) -> usize {
    r.args.extra_value(key).and_then(|s| s.parse().ok()).unwrap_or(default).min(SCRIPT_LEN)
}
