//! C19 leg `loom` (E-LOOM): the repository's `merge_channel.rs` (textually derived copy, see derive_mc.py:
//! std Mutex / atomics / Arc -> loom's, `tokio::sync::Notify` -> the model in notify.rs) under loom 0.7.2.
//!
//! Unlike the E-THREAD leg this needs no yield points in the source: loom interleaves at EVERY lock, atomic
//! and condvar operation (and explores the C11 weak behaviours of the Acquire/Release flags), so a mutant
//! that reorders two shared-memory steps cannot hide between hook points.
//!
//! Models: producer thread {modify(push) / modify(retract) / modify(no-op) ..., drop sender} against a
//! consumer that drains with `recv` until `None` (optionally cancelling one parked `recv` and restarting),
//! preemption bound 4 (quick) / 5 (thorough). Oracle: every pushed value is received exactly once, in order, inside one batch
//! (or was seen and removed by a retract); `None` only after the last value (the consumer stops at `None`,
//! so an early `None` leaves values unreceived); `modify` never fails while the receiver lives; a lost
//! wake-up is a consumer blocked forever = loom deadlock.
//!
//! Before any model runs, the `Notify` model is compared with the REAL `tokio::sync::Notify` on every
//! single-threaded script up to a length bound (differential self-test); a difference is exit 2.
mod mchan;
mod notify;

use serde_json::{Value, json};
use std::cell::RefCell;
use std::collections::HashSet;
use std::future::Future;
use std::pin::Pin;
use std::sync::Arc as StdArc;
use std::sync::Mutex as StdMutex;
use std::sync::atomic::{AtomicU64, Ordering};
use std::task::{Context, Poll, Wake, Waker};
use std::time::Duration;
use vcore::Report;

const PREEMPTION_BOUND: usize = 3;
type Batch = Vec<u32>;

// ------------------------------------------------------------------------------------------------
// block_on on loom primitives (loom's own needs the `futures` feature, whose dependency is not vendored)
// ------------------------------------------------------------------------------------------------
struct Signal {
    woken: loom::sync::Mutex<bool>,
    cv: loom::sync::Condvar,
}
impl Wake for Signal {
    fn wake(self: StdArc<Self>) {
        self.wake_by_ref()
    }
    fn wake_by_ref(self: &StdArc<Self>) {
        *self.woken.lock().unwrap() = true;
        self.cv.notify_one();
    }
}
fn block_on<F: Future>(f: F) -> F::Output {
    let mut f = std::pin::pin!(f);
    let sig = StdArc::new(Signal { woken: loom::sync::Mutex::new(false), cv: loom::sync::Condvar::new() });
    let waker = Waker::from(sig.clone());
    let mut cx = Context::from_waker(&waker);
    loop {
        if let Poll::Ready(v) = f.as_mut().poll(&mut cx) {
            return v;
        }
        let mut g = sig.woken.lock().unwrap();
        while !*g {
            g = sig.cv.wait(g).unwrap();
        }
        *g = false;
    }
}

/// Polls `fut` once: Some(output) if ready.
async fn poll_once<F: Future + Unpin>(fut: &mut F) -> Option<F::Output> {
    std::future::poll_fn(|cx| {
        Poll::Ready(match Pin::new(&mut *fut).poll(cx) {
            Poll::Ready(v) => Some(v),
            Poll::Pending => None,
        })
    })
    .await
}

// ------------------------------------------------------------------------------------------------
// differential self-test: notify.rs vs tokio::sync::Notify
// ------------------------------------------------------------------------------------------------
#[derive(Clone, Copy, Debug, PartialEq, Eq)]
enum NOp {
    NotifyOne,
    Create(u8),
    Enable(u8),
    Poll(u8),
    Drop(u8),
}
const NOPS: [NOp; 9] = [NOp::NotifyOne, NOp::Create(0), NOp::Enable(0), NOp::Poll(0), NOp::Drop(0), NOp::Create(1), NOp::Enable(1), NOp::Poll(1), NOp::Drop(1)];

struct Count(AtomicU64);
impl Wake for Count {
    fn wake(self: StdArc<Self>) {
        self.0.fetch_add(1, Ordering::SeqCst);
    }
    fn wake_by_ref(self: &StdArc<Self>) {
        self.0.fetch_add(1, Ordering::SeqCst);
    }
}

/// The common surface of the two implementations.
trait NotifyLike: 'static {
    type Fut: Future<Output = ()> + 'static;
    fn new() -> Self;
    fn notify_one(&self);
    /// lifetime erased; the caller drops every future before `self`
    unsafe fn notified_static(&self) -> Pin<Box<Self::Fut>>;
    fn enable(f: Pin<&mut Self::Fut>) -> bool;
}
impl NotifyLike for tokio::sync::Notify {
    type Fut = tokio::sync::futures::Notified<'static>;
    fn new() -> Self {
        tokio::sync::Notify::new()
    }
    fn notify_one(&self) {
        tokio::sync::Notify::notify_one(self)
    }
    unsafe fn notified_static(&self) -> Pin<Box<Self::Fut>> {
        let s: &'static tokio::sync::Notify = unsafe { &*(self as *const _) };
        Box::pin(s.notified())
    }
    fn enable(f: Pin<&mut Self::Fut>) -> bool {
        f.enable()
    }
}
impl NotifyLike for notify::Notify {
    type Fut = notify::Notified<'static>;
    fn new() -> Self {
        notify::Notify::new()
    }
    fn notify_one(&self) {
        notify::Notify::notify_one(self)
    }
    unsafe fn notified_static(&self) -> Pin<Box<Self::Fut>> {
        let s: &'static notify::Notify = unsafe { &*(self as *const _) };
        Box::pin(s.notified())
    }
    fn enable(f: Pin<&mut Self::Fut>) -> bool {
        f.enable()
    }
}

/// None: the script is not well-formed (uses a future that does not exist / creates one twice).
fn run_notify_script<N: NotifyLike>(ops: &[NOp]) -> Option<Vec<String>> {
    let n = Box::new(N::new());
    let mut futs: [Option<Pin<Box<N::Fut>>>; 2] = [None, None];
    let counts = [StdArc::new(Count(AtomicU64::new(0))), StdArc::new(Count(AtomicU64::new(0)))];
    let wakers = [Waker::from(counts[0].clone()), Waker::from(counts[1].clone())];
    let mut obs = Vec::new();
    let mut ok = true;
    for op in ops {
        match *op {
            NOp::NotifyOne => n.notify_one(),
            NOp::Create(k) => {
                if futs[k as usize].is_some() {
                    ok = false;
                    break;
                }
                futs[k as usize] = Some(unsafe { n.notified_static() });
            }
            NOp::Enable(k) => match futs[k as usize].as_mut() {
                Some(f) => obs.push(format!("enable{k}={}", N::enable(f.as_mut()))),
                None => {
                    ok = false;
                    break;
                }
            },
            NOp::Poll(k) => match futs[k as usize].as_mut() {
                Some(f) => {
                    let mut cx = Context::from_waker(&wakers[k as usize]);
                    let r = f.as_mut().poll(&mut cx).is_ready();
                    obs.push(format!("poll{k}={r}"));
                    if r {
                        futs[k as usize] = None; // a completed future is dropped, as after `.await`
                    }
                }
                None => {
                    ok = false;
                    break;
                }
            },
            NOp::Drop(k) => {
                if futs[k as usize].take().is_none() {
                    ok = false;
                    break;
                }
            }
        }
        obs.push(format!("wakes={},{}", counts[0].0.load(Ordering::SeqCst), counts[1].0.load(Ordering::SeqCst)));
    }
    // end state: is a permit stored? (a fresh future's enable() tells)
    if ok {
        let mut probe = unsafe { n.notified_static() };
        obs.push(format!("permit_at_end={}", N::enable(probe.as_mut())));
        drop(probe);
    }
    futs = [None, None];
    let _ = &futs;
    drop(n);
    ok.then_some(obs)
}

/// Returns (scripts compared, first difference).
fn notify_selftest(max_len: usize) -> (u64, Option<String>) {
    let mut compared = 0u64;
    for len in 1..=max_len {
        for i in 0..(NOPS.len() as u64).pow(len as u32) {
            let mut x = i;
            let ops: Vec<NOp> = (0..len)
                .map(|_| {
                    let o = NOPS[(x % 9) as usize];
                    x /= 9;
                    o
                })
                .collect();
            let Some(real) = run_notify_script::<tokio::sync::Notify>(&ops) else { continue };
            let got: StdArc<StdMutex<Option<Vec<String>>>> = StdArc::new(StdMutex::new(None));
            let (g2, ops2) = (got.clone(), ops.clone());
            loom::model(move || {
                *g2.lock().unwrap() = run_notify_script::<notify::Notify>(&ops2);
            });
            let model = got.lock().unwrap().take();
            compared += 1;
            if model.as_ref() != Some(&real) {
                return (compared, Some(format!("script {ops:?}: tokio::sync::Notify observes {real:?}, the model {model:?}")));
            }
        }
    }
    (compared, None)
}

// ------------------------------------------------------------------------------------------------
// loom models of the channel
// ------------------------------------------------------------------------------------------------
#[derive(Clone, Debug, PartialEq, Eq)]
struct Prog {
    /// p = modify(push k), r = modify(retract), t = modify(no-op), d = drop sender (always last),
    /// w = wait until the consumer has received everything pushed so far (so that the final drop's notification
    ///     cannot stand in for a notification that modify owes)
    prod: String,
    cancels: u8,
}
impl Prog {
    fn name(&self) -> String {
        format!("{}|drain|c{}", self.prod, self.cancels)
    }
}

#[derive(Default)]
struct ModelOut {
    executions: u64,
    digest: u64,
    outcomes: HashSet<String>,
    cancelled_execs: u64,
    parked_execs: u64,
    merged_batch_execs: u64,
    viol: Option<(&'static str, String, u64)>,
    panic: Option<String>,
    sample: Option<String>,
}
thread_local! {
    static ACC: RefCell<ModelOut> = RefCell::new(ModelOut::default());
}

#[derive(Default)]
struct Obs {
    pushed: Vec<u32>,
    retracted: Vec<u32>,
    modify_failed: bool,
}

fn body(prog: &Prog) {
    let (tx, mut rx) = mchan::merge_channel::<Batch>();
    let obs = StdArc::new(StdMutex::new(Obs::default()));
    let (o2, ops) = (obs.clone(), prog.prod.clone());
    // consumer -> producer acknowledgement for the `w` step (loom-visible, so waiting forever is a deadlock)
    let ack = StdArc::new((loom::sync::Mutex::new(0usize), loom::sync::Condvar::new()));
    let ack2 = ack.clone();
    let producer = loom::thread::spawn(move || {
        let mut tx = Some(tx);
        let mut k = 0u32;
        for op in ops.chars() {
            match op {
                'p' => {
                    k += 1;
                    let kk = k;
                    let r = tx.as_mut().unwrap().modify(|slot| {
                        slot.get_or_insert_default().push(kk);
                        o2.lock().unwrap().pushed.push(kk);
                    });
                    if r.is_err() {
                        o2.lock().unwrap().modify_failed = true;
                    }
                }
                'r' => {
                    let r = tx.as_mut().unwrap().modify(|slot| {
                        if let Some(b) = slot.take() {
                            o2.lock().unwrap().retracted.extend(b);
                        }
                    });
                    if r.is_err() {
                        o2.lock().unwrap().modify_failed = true;
                    }
                }
                't' => {
                    if tx.as_mut().unwrap().modify(|_| {}).is_err() {
                        o2.lock().unwrap().modify_failed = true;
                    }
                }
                'w' => {
                    let mut g = ack2.0.lock().unwrap();
                    while *g < k as usize {
                        g = ack2.1.wait(g).unwrap();
                    }
                }
                _ => drop(tx.take()),
            }
        }
    });
    let mut cancels = prog.cancels;
    let (mut cancelled, mut parked) = (false, false);
    let batches: Vec<Batch> = block_on(async {
        let mut batches = Vec::new();
        loop {
            let mut fut = Box::pin(rx.recv());
            let got = match poll_once(&mut fut).await {
                Some(v) => v,
                None => {
                    parked = true;
                    if cancels > 0 {
                        cancels -= 1;
                        cancelled = true;
                        drop(fut); // cancel the parked recv, restart
                        continue;
                    }
                    fut.as_mut().await
                }
            };
            drop(fut);
            match got {
                Some(b) => {
                    *ack.0.lock().unwrap() += b.len();
                    ack.1.notify_all();
                    batches.push(b)
                }
                None => break,
            }
        }
        batches
    });
    producer.join().unwrap();
    drop(rx);
    let o = obs.lock().unwrap();
    let received: Vec<u32> = batches.iter().flatten().copied().collect();
    let mut all = received.clone();
    all.extend(o.retracted.iter().copied());
    all.sort_unstable();
    let complaint = if o.modify_failed {
        Some(("modify-contract", "modify failed although the receiver is alive".to_string()))
    } else if all != o.pushed || received.windows(2).any(|w| w[0] >= w[1]) || batches.iter().any(|b| b.is_empty()) {
        let missing: Vec<u32> = o.pushed.iter().filter(|k| !all.contains(k)).copied().collect();
        if !missing.is_empty() {
            Some(("none-before-last-value", format!("recv returned None (consumer stopped) while {missing:?} had been pushed and never came out: pushed {:?}, received batches {batches:?}, retracted {:?}", o.pushed, o.retracted)))
        } else {
            Some(("value-lost-duplicated-or-reordered", format!("pushed {:?}, received batches {batches:?}, retracted {:?}", o.pushed, o.retracted)))
        }
    } else {
        None
    };
    let outcome = format!("{batches:?}/{:?}", o.retracted);
    ACC.with(|a| {
        let mut a = a.borrow_mut();
        a.executions += 1;
        a.digest = vcore::fnv64(format!("{}|{outcome}|{cancelled}|{parked}", a.digest).as_bytes());
        if cancelled {
            a.cancelled_execs += 1;
        }
        if parked {
            a.parked_execs += 1;
        }
        if batches.iter().any(|b| b.len() >= 2) {
            a.merged_batch_execs += 1;
        }
        if a.sample.is_none() && parked && batches.len() >= 2 {
            a.sample = Some(outcome.clone());
        }
        a.outcomes.insert(outcome);
        if let (Some((k, w)), None) = (complaint, &a.viol) {
            let n = a.executions;
            a.viol = Some((k, w, n));
        }
    });
}

fn run_model(prog: &Prog, bound: usize) -> ModelOut {
    ACC.with(|a| *a.borrow_mut() = ModelOut::default());
    let mut b = loom::model::Builder::new();
    b.preemption_bound = if bound == 0 { None } else { Some(bound) };
    b.max_branches = 20_000;
    b.max_duration = None;
    b.max_permutations = None;
    b.log = false;
    let p = prog.clone();
    let r = vcore::catch(std::panic::AssertUnwindSafe(move || b.check(move || body(&p))));
    let mut out = ACC.with(|a| std::mem::take(&mut *a.borrow_mut()));
    if let Err(p) = r {
        out.panic = Some(format!("{p} at {}", vcore::last_panic_location()));
    }
    out
}

fn case_json(prog: &Prog, bound: usize) -> Value {
    json!({"producer": prog.prod, "consumer": "drain", "cancels": prog.cancels, "preemption_bound": bound})
}

/// (key, what) of a model result, if it violates.
fn verdict(prog: &Prog, out: &ModelOut) -> Option<(String, String)> {
    if let Some(p) = &out.panic {
        if p.to_lowercase().contains("deadlock") {
            return Some(("lost-wakeup".into(), format!("program {}: after {} executions loom found a schedule in which the consumer is blocked forever (no thread can run): {p}", prog.name(), out.executions)));
        }
        if p.contains("exceeded") {
            return Some(("poll:does-not-return".into(), format!("program {}: loom gave up on an execution that keeps branching without end (a thread spins inside one call instead of parking or returning): {p}", prog.name())));
        }
        if p.contains("/loom-") {
            vcore::machinery_error(&format!("loom failed internally on {}: {p}", prog.name()));
        }
        return Some(("panic".into(), format!("program {} panicked after {} executions: {p}", prog.name(), out.executions)));
    }
    out.viol.as_ref().map(|(k, w, n)| (k.to_string(), format!("{w} [program {}, loom execution #{n}]", prog.name())))
}

fn programs(thorough: bool) -> Vec<Prog> {
    let mk = |p: &str, c: u8| Prog { prod: p.into(), cancels: c };
    let mut v = vec![mk("d", 0), mk("pd", 0), mk("pd", 1), mk("ppd", 0), mk("ppd", 1), mk("prpd", 0), mk("ptd", 1), mk("pwd", 0), mk("pwd", 1), mk("ppwd", 0), mk("pwpwd", 1)];
    if thorough {
        v.extend([mk("d", 1), mk("prpd", 1), mk("pppd", 0), mk("pppd", 1), mk("ppd", 2), mk("prptd", 1), mk("pwpwd", 0), mk("ppwpwd", 1), mk("pwtwd", 1)]);
    }
    v
}

fn main() {
    vcore::quiet_panics();
    let r = Report::new("C19", "loom", "model_checking", "E-LOOM");
    let bound: usize = r.args.extra_value("--bound").and_then(|s| s.parse().ok()).unwrap_or(r.tier().pick(PREEMPTION_BOUND + 1, PREEMPTION_BOUND + 2));
    if let Some(case) = r.replay_case() {
        let prog = Prog { prod: case["producer"].as_str().unwrap_or("pd").into(), cancels: case["cancels"].as_u64().unwrap_or(0) as u8 };
        let b = case["preemption_bound"].as_u64().unwrap_or(bound as u64) as usize;
        println!("replaying loom model {} (preemption bound {b}) in a child process; loom is deterministic, the same execution fails again", prog.name());
        let model = format!("{}:{}", prog.prod, prog.cancels);
        let bs = b.to_string();
        let c = vcore::sandbox::run_self(&["--model", &model, "--bound", &bs], b"", Duration::from_secs(3600));
        let so = String::from_utf8_lossy(&c.stdout);
        if let Some(line) = so.lines().find_map(|l| l.strip_prefix("WORKER-RESULT ")) {
            let v: Value = serde_json::from_str(line).unwrap_or(Value::Null);
            println!("  {} executions, {} distinct outcomes", v["executions"], v["outcomes"]);
            if let Some(arr) = v["violation"].as_array() {
                println!("  {}", arr[1].as_str().unwrap_or(""));
                r.violation(arr[0].as_str().unwrap_or("other"), arr[1].as_str().unwrap_or(""), case.clone());
            }
        } else if let Some(l) = c.stderr_tail.lines().find(|l| l.contains("WORKER-PANIC") && l.contains("exceeded")).filter(|_| c.signal == Some(6)) {
            println!("  loom reports: {}", l.trim());
            r.violation("poll:does-not-return", "a thread spins inside one call (loom: branch bound exceeded)", case.clone());
        } else if let Some(l) = c.stderr_tail.lines().find(|l| l.contains("WORKER-PANIC") && l.to_lowercase().contains("deadlock")).filter(|_| c.signal == Some(6)) {
            println!("  loom reports: {}", l.trim());
            r.violation("lost-wakeup", "the consumer is blocked forever and nothing can run (loom deadlock)", case.clone());
        } else {
            vcore::machinery_error(&format!("replay worker failed: exit {:?} signal {:?} {}", c.exit_code, c.signal, c.stderr_tail));
        }
        r.finish_replay();
    }
    // worker mode: one model, result on stdout
    if let Some(w) = r.args.extra_value("--model") {
        let (p, c) = w.split_once(':').unwrap_or((w, "0"));
        let prog = Prog { prod: p.into(), cancels: c.parse().unwrap_or(0) };
        // a loom deadlock report can turn into a process abort (a second panic while the blocked threads are unwound
        // through the channel's Drop impls): print every panic message so that the parent can still read the cause
        std::panic::set_hook(Box::new(|info| {
            let loc = info.location().map(|l| format!("{}:{}", l.file(), l.line())).unwrap_or_default();
            vcore::LAST_PANIC_LOCATION.with(|c| *c.borrow_mut() = Some(loc.clone()));
            let msg = info.payload().downcast_ref::<&str>().map(|s| s.to_string()).or_else(|| info.payload().downcast_ref::<String>().cloned()).unwrap_or_default();
            // first panic only, short (the parent keeps just the tail of stderr)
            static FIRST: std::sync::atomic::AtomicBool = std::sync::atomic::AtomicBool::new(true);
            if FIRST.swap(false, Ordering::SeqCst) {
                let short: String = msg.chars().take(160).collect();
                let file = loc.rsplit('/').next().unwrap_or("").to_string();
                eprintln!("WORKER-PANIC {short} at {file}");
            }
        }));
        let out = run_model(&prog, bound);
        let again = if r.args.has_flag("--audit") && out.panic.is_none() { Some(run_model(&prog, bound)) } else { None };
        if let Some(a) = &again {
            if a.executions != out.executions || a.digest != out.digest {
                vcore::machinery_error(&format!("determinism audit failed for {}: {} vs {} executions", prog.name(), out.executions, a.executions));
            }
        }
        let v = verdict(&prog, &out);
        println!(
            "WORKER-RESULT {}",
            json!({"executions": out.executions, "outcomes": out.outcomes.len(), "cancelled": out.cancelled_execs, "parked": out.parked_execs, "merged": out.merged_batch_execs,
                   "audited": again.map(|a| a.executions).unwrap_or(0), "violation": v.map(|(k, w)| json!([k, w])), "sample": out.sample})
        );
        std::process::exit(0);
    }
    let thorough = r.tier().is_thorough();
    // 1. the Notify model must agree with tokio before it is trusted
    let st_len = r.args.extra_value("--selftest-len").and_then(|s| s.parse().ok()).unwrap_or(r.tier().pick(6usize, 7usize));
    let (compared, diff) = notify_selftest(st_len);
    if let Some(d) = diff {
        vcore::machinery_error(&format!("the Notify model disagrees with tokio::sync::Notify (after {compared} scripts): {d}"));
    }
    r.counters.add("notify_model_scripts_agreeing_with_tokio", compared);
    r.eval(compared);
    // 2. one worker process per model (several loom models in one address space serialise on the mm lock)
    let progs = programs(thorough);
    let base: Vec<String> = std::env::args().skip(1).collect();
    let results = vcore::par::map(r.args.jobs, progs.clone(), |prog| {
        let mut args = base.clone();
        args.extend(["--model".into(), format!("{}:{}", prog.prod, prog.cancels), "--audit".into()]);
        let a: Vec<&str> = args.iter().map(|s| s.as_str()).collect();
        vcore::sandbox::run_self(&a, b"", Duration::from_secs(3 * 3600))
    });
    let mut total_outcomes = 0u64;
    for (prog, c) in progs.iter().zip(results.iter()) {
        let so = String::from_utf8_lossy(&c.stdout);
        let Some(line) = so.lines().find_map(|l| l.strip_prefix("WORKER-RESULT ")).filter(|_| c.exit_code == Some(0)) else {
            // aborted while loom was reporting a deadlock: that IS the finding (consumer blocked forever)
            let first_panic = c.stderr_tail.lines().find(|l| l.contains("WORKER-PANIC") && l.to_lowercase().contains("deadlock")).unwrap_or("").to_string();
            let spin = c.stderr_tail.lines().find(|l| l.contains("WORKER-PANIC") && l.contains("exceeded")).map(|l| l.trim().to_string());
            if let (Some(6), Some(sp)) = (c.signal, &spin) {
                r.eval(1);
                r.transitions.fetch_add(1, Ordering::Relaxed);
                r.states.fetch_add(1, Ordering::Relaxed);
                r.violation("poll:does-not-return", &format!("program {}: loom gave up on an execution that keeps branching without end (a thread spins inside one call instead of parking or returning): {sp}", prog.name()), case_json(prog, bound));
                continue;
            }
            if c.signal == Some(6) && first_panic.to_lowercase().contains("deadlock") {
                r.eval(1);
                r.transitions.fetch_add(1, Ordering::Relaxed);
                r.states.fetch_add(1, Ordering::Relaxed);
                r.violation("lost-wakeup", &format!("program {}: loom found a schedule in which the consumer is blocked forever and nothing can run ({}); the worker process aborted while unwinding the blocked threads", prog.name(), first_panic.trim()), case_json(prog, bound));
                continue;
            }
            let m = so.lines().find(|l| l.starts_with("MACHINERY-ERROR")).unwrap_or("");
            vcore::machinery_error(&format!("loom worker for {} failed: exit {:?} signal {:?} {m} {}", prog.name(), c.exit_code, c.signal, c.stderr_tail));
        };
        let v: Value = serde_json::from_str(line).unwrap_or_else(|e| vcore::machinery_error(&format!("worker output: {e}")));
        let g = |k: &str| v[k].as_u64().unwrap_or(0);
        r.eval(g("executions").max(1));
        r.transitions.fetch_add(g("executions").max(1), Ordering::Relaxed);
        r.states.fetch_add(g("outcomes").max(1), Ordering::Relaxed);
        r.traces_validated.fetch_add(g("audited"), Ordering::Relaxed);
        r.nontrivial(g("outcomes"));
        total_outcomes += g("outcomes");
        r.counters.add(&format!("executions:{}", prog.name()), g("executions"));
        r.counters.add("executions_in_which_the_consumer_parked", g("parked"));
        r.counters.add("executions_with_a_cancelled_recv", g("cancelled"));
        r.counters.add("executions_with_a_merged_batch", g("merged"));
        if let Some(arr) = v["violation"].as_array() {
            r.violation(arr[0].as_str().unwrap_or("other"), arr[1].as_str().unwrap_or(""), case_json(prog, bound));
        }
        if let Some(s) = v["sample"].as_str() {
            r.sample(json!({"program": prog.name(), "one_outcome(batches/retracted)": s, "loom_executions": g("executions")}));
        }
    }
    if r.violation_count() == 0 && total_outcomes <= progs.len() as u64 {
        println!("WARNING: one outcome per program - the interleavings collided on nothing");
    }
    r.sample(json!({"programs": progs.iter().map(|p| p.name()).collect::<Vec<_>>()}));
    r.note("preemption_bound", json!(bound));
    r.note("notify_selftest_max_len", json!(st_len));
    r.set_rule(
        "E-LOOM on a textual derivation of merge_channel.rs. transitions = loom executions (complete interleavings at every lock / atomic / condvar operation, within the stated preemption bound) \
         summed over programs; states = distinct_nontrivial = distinct outcomes (received batches, retracted values) per program; traces_validated_against_impl = executions of \
         every model run a second time with the identical outcome digest. evaluations additionally counts the differential scripts on which the Notify model and tokio::sync::Notify \
         agree. Programs: producer words over {p=modify(push), r=modify(retract), t=modify(no-op), w=wait until the consumer has everything pushed so far, d=drop} x consumer draining until None with c cancel-and-restarts.",
    );
    r.set_exhaustive(true);
    r.assume("tokio::sync::Notify is replaced by a model on loom primitives (notify_one / notified / enable / poll / drop-forwarding), accepted only after it agrees with the real tokio Notify on every single-threaded script of the stated length; its internal concurrency is the model's, not tokio's");
    r.assume("loom explores C11 behaviours of the atomics and mutexes it sees up to the stated preemption bound; the consumer cancels a recv only right after it parked");
    r.finish();
}
