//! A model of `tokio::sync::Notify` on loom primitives, limited to what merge_channel.rs relies on:
//! `notify_one`, `notified()`, `Notified::enable()`, polling and dropping a `Notified`.
//!
//! Semantics implemented (tokio's documentation of `Notify`):
//!  * `notify_one()` wakes the longest-waiting registered waiter that has not been notified yet; if there is
//!    none it stores ONE permit (a second `notify_one` without a waiter does not add another);
//!  * a `Notified` registers on its first poll or on `enable()`; if a permit is stored at that moment it
//!    consumes the permit and is complete (`enable()` returns true);
//!  * a registered `Notified` completes on the first poll after it was notified; its waker is called at most
//!    once per notification;
//!  * dropping a `Notified` that was notified by `notify_one` but not yet completed forwards the notification
//!    (to the next waiter, or as a stored permit).
//! The leg validates this model against the real `tokio::sync::Notify` (differential self-test, exit 2 on
//! any difference) before it trusts it.
use loom::sync::Mutex;
use std::future::Future;
use std::pin::Pin;
use std::task::{Context, Poll, Waker};

struct Waiter {
    id: u64,
    waker: Option<Waker>,
    notified: bool,
}

struct St {
    permit: bool,
    next_id: u64,
    waiters: Vec<Waiter>, // registration order
}

pub struct Notify {
    st: Mutex<St>,
}

enum State {
    Init,
    Waiting(u64),
    Done,
}

pub struct Notified<'a> {
    notify: &'a Notify,
    state: State,
}

impl St {
    /// Returns the waker to call (after unlocking), if a waiter was notified.
    fn notify_one(&mut self) -> Option<Waker> {
        match self.waiters.iter_mut().find(|w| !w.notified) {
            Some(w) => {
                w.notified = true;
                w.waker.take()
            }
            None => {
                self.permit = true;
                None
            }
        }
    }
}

impl Notify {
    pub fn new() -> Notify {
        Notify { st: Mutex::new(St { permit: false, next_id: 0, waiters: Vec::new() }) }
    }

    pub fn notified(&self) -> Notified<'_> {
        Notified { notify: self, state: State::Init }
    }

    pub fn notify_one(&self) {
        let waker = self.st.lock().unwrap().notify_one();
        if let Some(w) = waker {
            w.wake();
        }
    }
}

impl Notified<'_> {
    fn poll_inner(&mut self, waker: Option<&Waker>) -> bool {
        match self.state {
            State::Done => true,
            State::Init => {
                let mut st = self.notify.st.lock().unwrap();
                if st.permit {
                    st.permit = false;
                    self.state = State::Done;
                    true
                } else {
                    let id = st.next_id;
                    st.next_id += 1;
                    st.waiters.push(Waiter { id, waker: waker.cloned(), notified: false });
                    self.state = State::Waiting(id);
                    false
                }
            }
            State::Waiting(id) => {
                let mut st = self.notify.st.lock().unwrap();
                let pos = st.waiters.iter().position(|w| w.id == id).expect("registered waiter");
                if st.waiters[pos].notified {
                    st.waiters.remove(pos);
                    self.state = State::Done;
                    true
                } else {
                    if let Some(w) = waker {
                        st.waiters[pos].waker = Some(w.clone());
                    }
                    false
                }
            }
        }
    }

    /// `Notified::enable`: register without a waker; true if already complete.
    pub fn enable(mut self: Pin<&mut Self>) -> bool {
        self.poll_inner(None)
    }
}

impl Future for Notified<'_> {
    type Output = ();
    fn poll(mut self: Pin<&mut Self>, cx: &mut Context<'_>) -> Poll<()> {
        if self.poll_inner(Some(cx.waker())) { Poll::Ready(()) } else { Poll::Pending }
    }
}

impl Drop for Notified<'_> {
    fn drop(&mut self) {
        if let State::Waiting(id) = self.state {
            let waker = {
                let mut st = self.notify.st.lock().unwrap();
                let pos = st.waiters.iter().position(|w| w.id == id).expect("registered waiter");
                let w = st.waiters.remove(pos);
                if w.notified { st.notify_one() } else { None }
            };
            if let Some(w) = waker {
                w.wake();
            }
        }
    }
}
