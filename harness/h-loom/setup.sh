#!/bin/sh
# `vf setup` hook: derive + build the loom harness so the first `vf check C18` is incremental.
exec python3 "$(dirname "$0")/c18.py" --setup
