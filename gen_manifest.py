#!/usr/bin/env python3
"""Regenerate MANIFEST.json from checks.json + not_claimed.json (so the manifest is always valid)."""
import json, os
R = os.path.dirname(os.path.abspath(__file__))
import importlib.machinery, importlib.util
_l = importlib.machinery.SourceFileLoader("vf", os.path.join(R, "vf")); _sp = importlib.util.spec_from_loader("vf", _l); _vf = importlib.util.module_from_spec(_sp); _l.exec_module(_vf)
reg = _vf.registry()
nc = json.load(open(os.path.join(R, "not_claimed.json")))
props = [json.loads(l)["id"] for l in open(os.path.join(R, "properties.jsonl"))]
hooks = json.load(open(os.path.join(R, "hooks.json")))
import subprocess
try:
    log = subprocess.run(["git", "-C", "/repo", "log", "--format=%h %s", "4c61d34..HEAD"], stdout=subprocess.PIPE, text=True).stdout.splitlines()
    hooks["source_commits"] = [l.split()[0] for l in reversed(log) if l.split(" ", 1)[1].startswith("verif hooks")]
except Exception:
    pass
checks = []
for pid in props:
    if pid not in reg:
        continue
    e = reg[pid]
    checks.append({
        "property_id": pid,
        "quick_cmd": "./vf check %s --tier quick" % pid,
        "thorough_cmd": "./vf check %s --tier thorough" % pid,
        "evidence_file": "/verif/evidence/%s.json" % pid,
        "replay_cmd_template": "./vf replay {path}",
        "engine": e["engine"],
        "level_claimed": {"category": e["level"], "text": e["level_text"], "design_ref": e.get("design_ref", "DESIGN.md 2")},
        "level_note": e["level_note"],
        "technique": e["technique"],
    })
na = [{"property_id": p, "reason": nc.get(p, "check not built yet; see DESIGN.md section 5 (build order)")} for p in props if p not in reg]
engines = json.load(open(os.path.join(R, "engines.json")))
for en in engines:
    en["serves_properties"] = [p for p in props if p in reg and en["name"] in reg[p]["engine"]]
m = {
    "version": 1,
    "setup_cmd": "./vf setup",
    "hooks": hooks,
    "engines": engines,
    "checks": checks,
    "not_applicable": na,
    "notes": "All checks are `./vf check Cxx --tier quick|thorough` (cwd /verif). Exit 0 held / 1 VIOLATION line / 2 machinery error. Checks rebuild from /repo's working tree (path dependencies) with RUSTFLAGS=--cfg scylla_verif. known_findings.json lists recorded and fixed defects.",
}
json.dump(m, open(os.path.join(R, "MANIFEST.json"), "w"), indent=1)
print("MANIFEST.json: %d checks, %d not_applicable" % (len(checks), len(na)))
