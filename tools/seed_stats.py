#!/usr/bin/env python3
"""Per-wave statistics: initial verdict (first committed meta.json) vs current verdict of every seeded change."""
import json, glob, os, subprocess, collections
R = '/verif'
rows = collections.OrderedDict()
for mf in sorted(glob.glob(R + '/seeded/*/meta.json')):
    sid = os.path.basename(os.path.dirname(mf))
    wave = sid.split('-')[1][0]
    cur = json.load(open(mf))
    rel = os.path.relpath(mf, R)
    first = subprocess.run(['git', '-C', R, 'log', '--diff-filter=A', '--format=%H', '--', rel], stdout=subprocess.PIPE, text=True).stdout.split()
    init = cur
    if first:
        try:
            init = json.loads(subprocess.run(['git', '-C', R, 'show', first[-1] + ':' + rel], stdout=subprocess.PIPE, text=True).stdout)
        except Exception:
            pass
    def verdict(m):
        own = m['checks'].get(m['property'], {}).get('exit')
        anyc = any(v.get('exit') == 1 for v in m['checks'].values())
        return 'own' if own == 1 else ('other' if anyc else 'none')
    rows[sid] = (wave, verdict(init), verdict(cur))
waves = collections.OrderedDict()
for sid, (w, i, c) in rows.items():
    d = waves.setdefault(w, collections.Counter())
    d['n'] += 1; d['init_' + i] += 1; d['cur_' + c] += 1
print('| wave | seeds | initially caught by own check | initially only by another property\'s check | initially by none | now by own check | now only by another | now by none |')
print('|---|---|---|---|---|---|---|---|')
for w, d in waves.items():
    print('| %s | %d | %d | %d | %d | %d | %d | %d |' % (w, d['n'], d['init_own'], d['init_other'], d['init_none'], d['cur_own'], d['cur_other'], d['cur_none']))
print()
print('still not caught by the own property check:', [(s, c) for s, (w, i, c) in rows.items() if c != 'own'])
