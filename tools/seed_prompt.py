#!/usr/bin/env python3
"""Print the sub-agent prompt for seeding property-breaking changes for one property (only the property text is given)."""
import json, sys
pid = sys.argv[1]; n = sys.argv[2] if len(sys.argv) > 2 else "a"
p = next(json.loads(l) for l in open("/verif/properties.jsonl") if json.loads(l)["id"] == pid)
AVOID = sys.argv[3] if len(sys.argv) > 3 else ""
avoid_txt = ("\nOther reviewers have already produced changes at these sites for this property - choose DIFFERENT code sites and mechanisms: " + AVOID + "\n") if AVOID else ""
print(f"""You are testing how well a Rust library's behaviour is protected against subtle regressions. The library is the scylladb/scylla-rust-driver workspace, checked out as a git repository at /repo (do NOT modify /repo itself, and do not read or use anything under /verif). Work only in your own scratch git worktree, which you create with:
    git -C /repo worktree add /tmp/seed-{pid}-{n} HEAD
and output directory /tmp/seed-out/{pid}-{n}/ . Disk space is tight: do NOT copy /repo/target. Use a PRIVATE build directory and no debuginfo: `export CARGO_TARGET_DIR=/tmp/seed-{pid}-{n}-target CARGO_PROFILE_DEV_DEBUG=0 CARGO_PROFILE_TEST_DEBUG=0` for every cargo command (a build directory shared between worktrees silently links other workers' artefacts), and delete it when you are done. Keep whatever you write small and delete scratch files when done. Build and test offline: `cargo test --offline ...` (no network is available). Ignore the harmless conda warning every shell command prints.

Here is a semantic property of the library that should always hold:

  TITLE: {p['title']}
  STATEMENT: {p['statement']}
  QUANTIFIED OVER: {p['quantifier']['text']}
  CODE AREAS: {', '.join(p['anchors']['files'])}

Your task: produce TWO different, realistic source changes to the library (each one separately) that BREAK this property while the code still compiles and the repository's existing tests still pass. They must look like plausible mistakes a maintainer could make in a refactor or optimisation (an off-by-one at a boundary, a check moved after the action it guards, state updated in the wrong order, a stale value reused, a wrong comparison, two sites that each look fine alone), and they must need something SPECIFIC to manifest - a particular interleaving or ordering of events, a fault at a particular point, a multi-step sequence of operations, an unusual input shape or boundary value, or two cooperating sites - not something ordinary use or the existing unit tests would expose at once. The two changes should exercise different mechanisms / code sites behind the property. {avoid_txt}Do not touch test code, and do not add or change anything under scylla/src/verif/ or any `cfg(scylla_verif)` block.

For EACH change i in {{1,2}} deliver in /tmp/seed-out/{pid}-{n}/change<i>/ :
  - patch.diff : `git diff` of the change against the worktree's HEAD (apply-able with `git apply`), touching library source only;
  - a demonstration: demo.sh taking the repository directory as $1, which (copying any extra test file / small program it needs from its own directory into place - e.g. a new file under <repo>/scylla/tests/ or an appended #[cfg(test)] module, or a tiny standalone cargo project with a path dependency on <repo>/scylla) builds and runs the demonstration offline and exits 0 when the property holds and NON-ZERO when it is violated; it must fail with your change applied and pass on the unchanged code, deterministically; it must clean up any files it added to the repository directory;
  - README.md (short): what the change does, why it breaks the property, exactly what is needed for it to manifest, which existing tests you ran and their result.
Verify yourself: (a) with the change applied the relevant crates' existing tests still pass - run at least `cargo test --offline -p <crate> --lib` for every crate you touched (for the `scylla` crate many tests need a live cluster and fail also on unchanged code; compare against a run on unchanged code and make sure no test that passes unchanged fails with your change); (b) demo.sh fails with the change and passes without it. If a candidate change is caught by an existing test, discard it and find another.

When finished remove your worktree and its build output: `git -C /repo worktree remove --force /tmp/seed-{pid}-{n}; rm -rf /tmp/seed-{pid}-{n}-target`. Reply with a short summary (<= 15 lines) of the two changes and their verification status. Do not paste code.""")
