#!/usr/bin/env python3
"""Regenerate the 'seeded changes' table in DESIGN.md (between the SEEDED-TABLE markers) from /verif/seeded/*/meta.json."""
import json, os, glob, re
rows = []
for mf in sorted(glob.glob("/verif/seeded/*/meta.json")):
    m = json.load(open(mf))
    d = os.path.dirname(mf)
    what = m.get("summary", "")
    if not what and os.path.exists(os.path.join(d, "README.md")):
        txt = open(os.path.join(d, "README.md")).read().strip().splitlines()
        what = next((l.strip("# ").strip() for l in txt if l.strip()), "")[:160]
    caught = []
    for c, r in sorted(m.get("checks", {}).items()):
        key = ""
        for l in r.get("lines", []):
            mm = re.search(r"leg=(\S+) key=(\S+)", l)
            if mm:
                key = " (%s/%s)" % (mm.group(1), mm.group(2)); break
        caught.append("%s %s: %s%s" % (c, r.get("tier", "quick"), {0: "MISSED", 1: "caught", 2: "machinery error"}.get(r.get("exit"), r.get("exit")), key))
    rows.append("| %s | %s | %s | %s | %s |" % (m["seed_id"], m["property"], what.replace("|", "/"), m.get("needs", "").replace("|", "/"), "; ".join(caught)))
table = "| seed | property | change | needs to manifest | checks |\n|---|---|---|---|---|\n" + "\n".join(rows) + "\n"
p = "/verif/DESIGN.md"
s = open(p).read()
a, b = "<!-- SEEDED-TABLE-BEGIN -->", "<!-- SEEDED-TABLE-END -->"
if a in s:
    s = s[: s.index(a) + len(a)] + "\n" + table + s[s.index(b):]
    open(p, "w").write(s)
import subprocess
stats = subprocess.run(["/verif/tools/seed_stats.py"], stdout=subprocess.PIPE, text=True).stdout
s = open(p).read()
a2, b2 = "<!-- SEED-STATS-BEGIN -->", "<!-- SEED-STATS-END -->"
if a2 in s:
    s = s[: s.index(a2) + len(a2)] + "\n" + stats + s[s.index(b2):]
    open(p, "w").write(s)
print(table[:2000])
