#!/usr/bin/env python3
"""confirm_seed.py <change_dir> <seed_id> <Cxx> [--skip-baseline] [--checks Cxx,Cyy] [--tier quick]

Confirms an independently seeded property-breaking change in a scratch worktree of /repo:
  1. demo passes on the unchanged tree,           2. patch applies and the workspace builds,
  3. the repository's pinned suite still passes,   4. demo fails with the change,
  5. which of our checks report it (`./vf check <C> --repo <worktree>`).
Keeps it as /verif/seeded/<seed_id>/{patch.diff, demo files, meta.json} if 1-4 hold. Removes the worktree.
"""
import json, os, shutil, subprocess, sys, time

change_dir, seed_id, prop = os.path.abspath(sys.argv[1]), sys.argv[2], sys.argv[3]
skip_baseline = "--skip-baseline" in sys.argv
checks = [prop]
if "--checks" in sys.argv:
    checks = sys.argv[sys.argv.index("--checks") + 1].split(",")
tier = sys.argv[sys.argv.index("--tier") + 1] if "--tier" in sys.argv else "quick"
CSID = os.environ.get("CS_ID", "")
wt = "/tmp/cs-wt" + CSID  # fixed path: sequential confirmations share build artefacts (target /tmp/cs-target, alt harness target)
log = []


def run(cmd, cwd=None, env=None, timeout=3600):
    t0 = time.time()
    p = subprocess.run(cmd, cwd=cwd, env=env, shell=isinstance(cmd, str), stdout=subprocess.PIPE, stderr=subprocess.STDOUT, text=True, timeout=timeout)
    out = "\n".join(l for l in p.stdout.splitlines() if "conda" not in l)
    log.append({"cmd": cmd if isinstance(cmd, str) else " ".join(cmd), "rc": p.returncode, "wall_s": round(time.time() - t0, 1), "tail": out[-1500:]})
    return p.returncode, out


def cleanup():
    """Reset the shared scratch worktree to /repo's HEAD (kept between confirmations; remove with --final-cleanup)."""
    if os.path.isdir(wt):
        subprocess.run(["git", "-C", wt, "checkout", "-q", "--", "."], stdout=subprocess.DEVNULL, stderr=subprocess.DEVNULL)
        subprocess.run(["git", "-C", wt, "clean", "-fdq", "-e", "target"], stdout=subprocess.DEVNULL, stderr=subprocess.DEVNULL)


if "--final-cleanup" in sys.argv:
    subprocess.run(["git", "-C", "/repo", "worktree", "remove", "--force", wt])
    for d in (wt, "/tmp/cs-target" + CSID, "/verif/.target/alt-tmp_cs_wt" + CSID, "/tmp/vf-alt-tmp_cs_wt" + CSID, "/tmp/vf-alt-tmp_cs_wt" + CSID + "-out"):
        shutil.rmtree(d, ignore_errors=True)
    sys.exit(0)

subprocess.run(["git", "-C", "/repo", "worktree", "prune"])
if not os.path.isdir(wt):
    rc, _ = run(["git", "-C", "/repo", "worktree", "add", "--detach", wt, "HEAD"])
    assert rc == 0, log[-1]
cleanup()
head = subprocess.run(["git", "-C", "/repo", "rev-parse", "HEAD"], stdout=subprocess.PIPE, text=True).stdout.strip()
rc, _ = run(["git", "-C", wt, "checkout", "-q", "--detach", head])
assert rc == 0, log[-1]
meta = {"seed_id": seed_id, "property": prop, "repo_head": subprocess.run(["git", "-C", "/repo", "rev-parse", "--short", "HEAD"], stdout=subprocess.PIPE, text=True).stdout.strip()}
env = dict(os.environ)
env["CARGO_TARGET_DIR"] = "/tmp/cs-target" + CSID
env["CARGO_NET_OFFLINE"] = "true"
env.pop("RUSTFLAGS", None)
demo = os.path.join(change_dir, "demo.sh")
ok = True
if "--recheck" in sys.argv:
    # re-run only our checks against an already confirmed seed (change_dir = /verif/seeded/<id>)
    meta = json.load(open(os.path.join(change_dir, "meta.json")))
    rc, out = run(["git", "-C", wt, "apply", os.path.join(change_dir, "patch.diff")])
    assert rc == 0, out
    for c in checks:
        rc, out = run(["/verif/vf", "check", c, "--tier", tier, "--repo", wt], cwd="/verif", timeout=7200)
        viol = [l for l in out.splitlines() if l.startswith("VIOLATION") or l.startswith("DETAIL") or l.startswith("MACHINERY")]
        meta["checks"][c] = {"tier": tier, "exit": rc, "lines": viol[:6], "verif_commit": subprocess.run(["git", "-C", "/verif", "rev-parse", "--short", "HEAD"], stdout=subprocess.PIPE, text=True).stdout.strip()}
    meta["rechecked_at_repo_head"] = subprocess.run(["git", "-C", "/repo", "rev-parse", "--short", "HEAD"], stdout=subprocess.PIPE, text=True).stdout.strip()
    json.dump(meta, open(os.path.join(change_dir, "meta.json"), "w"), indent=1)
    cleanup()
    print(json.dumps(meta["checks"], indent=1))
    sys.exit(0)
# 1. demo on unchanged tree
rc, out = run(["bash", demo, wt], cwd=change_dir, env=env)
meta["demo_unchanged_rc"] = rc
if rc != 0:
    ok = False
    meta["reject"] = "demo fails on the unchanged tree"
# 2. apply
if ok:
    rc, out = run(["git", "-C", wt, "apply", os.path.join(change_dir, "patch.diff")])
    if rc != 0:
        ok = False
        meta["reject"] = "patch does not apply: " + out[-300:]
# 3. baseline
if ok and not skip_baseline:
    rc, out = run(["/verif/tools/baseline_check.py", wt, "--target", "/tmp/cs-target" + CSID, "--only-stable"], env=env, timeout=5400)
    meta["baseline_rc"] = rc
    meta["baseline_summary"] = [l for l in out.splitlines() if l.startswith("baseline") or "REGRESSION" in l][:10]
    if rc != 0:
        ok = False
        meta["reject"] = "existing tests regress (or build fails) with the change"
# 4. demo with change
if ok:
    rc, out = run(["bash", demo, wt], cwd=change_dir, env=env)
    meta["demo_changed_rc"] = rc
    if rc == 0:
        ok = False
        meta["reject"] = "demo does not fail with the change"
# 5. our checks
meta["checks"] = {}
if ok:
    run(["git", "-C", wt, "status", "--short"])
    for c in checks:
        rc, out = run(["/verif/vf", "check", c, "--tier", tier, "--repo", wt], cwd="/verif", timeout=7200)
        viol = [l for l in out.splitlines() if l.startswith("VIOLATION") or l.startswith("DETAIL") or l.startswith("MACHINERY")]
        meta["checks"][c] = {"tier": tier, "exit": rc, "lines": viol[:6]}
meta["confirmed"] = ok
meta["log"] = log
dst = "/verif/seeded/%s" % seed_id
if ok:
    os.makedirs(dst, exist_ok=True)
    for fn in os.listdir(change_dir):
        src = os.path.join(change_dir, fn)
        if os.path.isfile(src):
            shutil.copy(src, dst)
        elif os.path.isdir(src) and fn not in ("target",):
            shutil.copytree(src, os.path.join(dst, fn), dirs_exist_ok=True, ignore=shutil.ignore_patterns("target"))
    json.dump(meta, open(os.path.join(dst, "meta.json"), "w"), indent=1)
else:
    os.makedirs("/tmp/seed-out/rejected", exist_ok=True)
    json.dump(meta, open("/tmp/seed-out/rejected/%s.json" % seed_id, "w"), indent=1)
cleanup()
print(json.dumps({k: v for k, v in meta.items() if k != "log"}, indent=1))
sys.exit(0 if ok else 1)
