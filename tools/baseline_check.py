#!/usr/bin/env python3
"""baseline_check.py <repo_dir> [--target <dir>] : run the repository's pinned test suite (guard off) in <repo_dir>
and compare with /root/.vp/BASELINE.json stable_pass. Exit 0 iff every stable-pass test passed."""
import json, os, subprocess, sys, xml.etree.ElementTree as ET
repo = os.path.abspath(sys.argv[1])
target = os.path.join(repo, "target")
if "--target" in sys.argv:
    target = sys.argv[sys.argv.index("--target") + 1]
env = dict(os.environ); env["CARGO_TARGET_DIR"] = target; env["CARGO_NET_OFFLINE"] = "true"; env.pop("RUSTFLAGS", None)
cmd = ["cargo", "nextest", "run", "--workspace", "--no-fail-fast", "--tool-config-file", "pb:/w/lib/nextest.toml", "--profile", "pb", "--test-threads", "8", "--offline"]
if "--only-stable" in sys.argv:
    # skip the tests that fail on the unchanged tree too (they need a live cluster and only burn 60 s timeouts)
    af = json.load(open("/root/.vp/BASELINE.json"))["always_fail"]
    names = []
    for t in af:
        for pre in ("scylla::integration::", "scylla::"):
            if t.startswith(pre):
                names.append(t[len(pre):]); break
    cmd += ["-E", "not (" + " | ".join("test(=%s)" % n for n in names) + ")"]
cands = [os.path.join(target, "nextest", "pb", "junit.xml"), os.path.join(repo, "target", "nextest", "pb", "junit.xml")]
for c in cands:
    if os.path.exists(c):
        os.remove(c)
p = subprocess.run(cmd, cwd=repo, env=env, stdout=subprocess.PIPE, stderr=subprocess.STDOUT, text=True)
junit = next((c for c in cands if os.path.exists(c)), None)
if junit is None:
    print(p.stdout[-3000:]); print("NO JUNIT (build failure?)"); sys.exit(2)
passed, failed = set(), set()
for tc in ET.parse(junit).getroot().iter("testcase"):
    tid = (tc.get("classname") or "") + "::" + (tc.get("name") or "")
    if tc.find("failure") is not None or tc.find("error") is not None or tc.find("flakyFailure") is not None or tc.find("rerunFailure") is not None: failed.add(tid)
    elif tc.find("skipped") is not None: pass
    else: passed.add(tid)
passed -= failed
base = set(json.load(open("/root/.vp/BASELINE.json"))["stable_pass"])
missing = sorted(base - passed)
print("baseline stable_pass=%d passed_now=%d regressions=%d" % (len(base), len(base & passed), len(missing)))
for m in missing[:40]: print("  REGRESSION", m)
sys.exit(0 if not missing else 1)
