#!/bin/bash
# confirm_daemon.sh: processes lines "<change_dir> <seed_id> <Cxx> [opts]" appended to /tmp/seed-out/queue.txt, one at a time, forever.
Q=/tmp/seed-out/queue$CS_ID.txt; D=/tmp/seed-out/queue$CS_ID.done; touch $Q $D
while true; do
  n=$(wc -l < $D); line=$(sed -n "$((n+1))p" $Q)
  if [ -z "$line" ]; then sleep 20; continue; fi
  set -- $line
  /verif/tools/confirm_seed.py "$@" > /tmp/seed-out/confirm-$2.log 2>&1
  echo "$2 rc=$?" >> /tmp/seed-out/confirm-summary.log
  echo "$line" >> $D
done
