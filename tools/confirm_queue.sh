#!/bin/bash
# usage: confirm_queue.sh "<change_dir> <seed_id> <Cxx> [opts]" ...   (runs sequentially, logs to /tmp/seed-out/confirm-<seed_id>.log)
for job in "$@"; do
  set -- $job
  /verif/tools/confirm_seed.py "$@" > /tmp/seed-out/confirm-$2.log 2>&1
  echo "$2 rc=$?" >> /tmp/seed-out/confirm-summary.log
done
