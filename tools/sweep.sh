#!/bin/bash
# sweep.sh <tier> [Cxx ...] : run checks sequentially, log RESULT lines to /tmp/sweep-<tier>.log
tier=$1; shift
props=${@:-C01 C02 C03 C04 C05 C06 C07 C08 C09 C10 C11 C12 C13 C14 C15 C16 C17 C18 C19 C20}
for c in $props; do
  /verif/vf check $c --tier $tier 2>&1 | grep -E "^(RESULT|VIOLATION|MACHINERY|KNOWN|DETAIL)" | cut -c1-400 >> /tmp/sweep-$tier.log
done
echo DONE >> /tmp/sweep-$tier.log
