#!/usr/bin/env python3
"""Fill summary / needs / ran in /verif/seeded/*/meta.json from each seed's README.md and confirmation log."""
import json, glob, os, re
for mf in sorted(glob.glob('/verif/seeded/*/meta.json')):
    d = os.path.dirname(mf); m = json.load(open(mf))
    rd = os.path.join(d, 'README.md')
    txt = open(rd).read() if os.path.exists(rd) else ''
    lines = txt.splitlines()
    title = next((l.strip('# ').strip() for l in lines if l.strip()), '')
    needs = ''
    # section whose heading mentions needs/manifest
    for i, l in enumerate(lines):
        if l.startswith('#') and re.search(r'need|manifest|trigger', l, re.I):
            body = []
            for k in lines[i+1:]:
                if k.startswith('#'): break
                body.append(k.strip())
            needs = ' '.join(x for x in body if x)[:600]
            break
    if not needs:
        sents = re.split(r'(?<=[.!?])\s+', ' '.join(l.strip() for l in lines if not l.startswith('#')))
        cand = [s for s in sents if re.search(r'\b(needs?|only (when|if|shows|manifests)|manifests?|requires?|trigger)', s, re.I)]
        needs = ' '.join(cand[:2])[:600]
    m['summary'] = title[:200]
    m['needs'] = needs
    m['breaks_property'] = m['property']
    m['ran'] = [ {"cmd": l['cmd'][:160], "rc": l['rc'], "wall_s": l['wall_s']} for l in m.get('log', []) ] or m.get('ran', [])
    json.dump(m, open(mf, 'w'), indent=1)
print('ok')
